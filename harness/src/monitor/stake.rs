//! cw4-stake inside the AppDriver. Decides C10 and provides the cw4-stake passes of C09 (at-height
//! weights, total = sum) and C14 (admin-only hooks, truthful hook deliveries to sink contracts).

use crate::chain::{Chain, SinkEntry};
use crate::core::{Hist, Monitor, Tier};
use crate::cw20w::{pool, short, Exp};
use crate::cw4w::Timeline;
use crate::direct::{mk_addr, Res};
use cosmwasm_std::{coin, to_json_binary, Addr, Coin, Uint128};
use cw20::Denom;
use cw4::{MemberListResponse, MemberResponse, TotalWeightResponse};
use cw4_stake::msg::{ExecuteMsg, InstantiateMsg, QueryMsg, ReceiveMsg, StakedResponse};
use cw_controllers::ClaimsResponse;
use cw_multi_test::AppResponse;
use cw_utils::Duration;
use std::collections::{BTreeMap, BTreeSet};

pub struct Stake {
    pub prop: &'static str,
}

const STAKE_DENOM: &str = "ustake";
const OTHER_DENOM: &str = "uother";

#[derive(Clone, Debug)]
enum Tok {
    Native,
    Cw20(Addr),
}

#[derive(Clone, Debug)]
enum Op {
    Bond { amount: u128 },
    BondWrongDenom { amount: u128 },
    BondTwoCoins { amount: u128 },
    BondNoFunds,
    BondOtherCw20 { amount: u128 },
    /// a native coin whose denom string is exactly the configured cw20 token's address
    BondNativeNamedLikeToken { amount: u128 },
    DirectReceive { amount: u128 },
    Unbond { amount: u128 },
    Claim,
    AddHook { which: usize },
    RemoveHook { which: usize },
    UpdateAdmin { admin: Option<String> },
    Donate { amount: u128 },
}

impl Op {
    fn kind(&self) -> &'static str {
        match self {
            Op::Bond { .. } => "bond",
            Op::BondWrongDenom { .. } => "bond_wrong_denom",
            Op::BondTwoCoins { .. } => "bond_two_coins",
            Op::BondNoFunds => "bond_no_funds",
            Op::BondOtherCw20 { .. } => "bond_other_cw20",
            Op::BondNativeNamedLikeToken { .. } => "bond_native_named_like_token",
            Op::DirectReceive { .. } => "direct_receive",
            Op::Unbond { .. } => "unbond",
            Op::Claim => "claim",
            Op::AddHook { .. } => "add_hook",
            Op::RemoveHook { .. } => "remove_hook",
            Op::UpdateAdmin { .. } => "update_admin",
            Op::Donate { .. } => "donate",
        }
    }
}

struct World {
    c: Chain,
    st: Addr,
    tok: Tok,
    /// the native staking denom of this world (also set, unused, for cw20 configurations)
    denom: String,
    other_cw20: Addr,
    tpw: u128,
    min_bond: u128,
    period: Duration,
    admin: Option<String>,
    former_admins: Vec<String>,
    hooks: Vec<Addr>,
    hook_pool: Vec<Addr>,
    users: Vec<String>,
    // model
    donated: u128,
    members: BTreeMap<String, Timeline<Option<u64>>>,
    change_heights: BTreeSet<u64>,
    h0: u64,
    sink_seen: BTreeMap<String, u64>,
}

#[derive(Clone, Debug, PartialEq)]
struct Snap {
    staked: BTreeMap<String, u128>,
    claims: BTreeMap<String, Vec<(u128, Exp)>>,
    member: BTreeMap<String, Option<u64>>,
    listed: Vec<(String, u64)>,
    total: u64,
    holdings: u128,
    user_bal: BTreeMap<String, u128>,
    admin: Option<String>,
    hooks: Vec<String>,
}

impl World {
    fn token_balance(&self, a: &str) -> u128 {
        match &self.tok {
            Tok::Native => self.c.bank(a, &self.denom),
            Tok::Cw20(t) => self.c.cw20_balance(t, a),
        }
    }
    fn q<R: serde::de::DeserializeOwned>(&self, m: &QueryMsg) -> Res<R> {
        self.c.query(&self.st, m)
    }
    fn snap(&self, h: &mut Hist, prop: &str) -> Option<Snap> {
        let mut staked = BTreeMap::new();
        let mut claims = BTreeMap::new();
        let mut member = BTreeMap::new();
        let mut user_bal = BTreeMap::new();
        for u in &self.users {
            let s: Res<StakedResponse> = self.q(&QueryMsg::Staked { address: u.clone() });
            let cl: Res<ClaimsResponse> = self.q(&QueryMsg::Claims { address: u.clone() });
            let m: Res<MemberResponse> = self.q(&QueryMsg::Member { addr: u.clone(), at_height: None });
            match (s, cl, m) {
                (Res::Ok(s), Res::Ok(cl), Res::Ok(m)) => {
                    staked.insert(u.clone(), s.stake.u128());
                    claims.insert(u.clone(), cl.claims.iter().map(|c| (c.amount.u128(), Exp::from(&c.release_at))).collect());
                    member.insert(u.clone(), m.weight);
                }
                (a, b, c) => {
                    h.violate(&format!("{prop}/stake/query-failed"), format!("{} {} {}", a.err_text(), b.err_text(), c.err_text()));
                    return None;
                }
            }
            user_bal.insert(u.clone(), self.token_balance(u));
        }
        let mut listed = vec![];
        let mut cursor: Option<String> = None;
        loop {
            let page: Res<MemberListResponse> = self.q(&QueryMsg::ListMembers { start_after: cursor.clone(), limit: Some(2) });
            let Res::Ok(page) = page else {
                h.violate(&format!("{prop}/stake/list-members-failed"), "query failed".into());
                return None;
            };
            if page.members.is_empty() {
                break;
            }
            cursor = page.members.last().map(|m| m.addr.clone());
            listed.extend(page.members.into_iter().map(|m| (m.addr, m.weight)));
            if listed.len() > 500 {
                break;
            }
        }
        let total: Res<TotalWeightResponse> = self.q(&QueryMsg::TotalWeight {});
        let Res::Ok(total) = total else {
            h.violate(&format!("{prop}/stake/total-weight-failed"), "query failed".into());
            return None;
        };
        let admin: Res<cw_controllers::AdminResponse> = self.q(&QueryMsg::Admin {});
        let hooks: Res<cw_controllers::HooksResponse> = self.q(&QueryMsg::Hooks {});
        Some(Snap {
            staked,
            claims,
            member,
            listed,
            total: total.weight,
            holdings: self.token_balance(self.st.as_str()),
            user_bal,
            admin: admin.ok().and_then(|a| a.admin),
            hooks: hooks.ok().map(|h| h.hooks).unwrap_or_default(),
        })
    }
    fn expected_weight(&self, stake: u128) -> Option<u128> {
        if stake >= self.min_bond.max(1) && self.tpw > 0 {
            Some(stake / self.tpw)
        } else {
            None
        }
    }
    fn new_hook_entries(&mut self, hook: &Addr) -> Vec<SinkEntry> {
        let from = *self.sink_seen.get(hook.as_str()).unwrap_or(&0);
        let v = self.c.sink_log(hook, from);
        if let Some(l) = v.last() {
            self.sink_seen.insert(hook.to_string(), l.n);
        }
        v
    }
}

impl Stake {
    fn setup(&self, h: &mut Hist) -> Option<World> {
        let pl = pool();
        let mut c = Chain::new(h.rng.range(10, 5000), h.rng.range(1_600_000_000, 1_800_000_000));
        let (fb, fs) = h.rng.far_future();
        c.advance(fb, fs);
        if fb + fs > 0 {
            h.out.count("worlds_far_in_the_future");
        }
        let jitter = h.rng.below(1_000_000_000);
        let t0 = c.time_ns();
        c.set_time_ns(t0 + jitter, 0);
        let owner = c.owner.to_string();
        let users: Vec<String> = pl.actors[..3].to_vec();
        let big = 1u128 << 100;
        let bals: Vec<(String, u128)> = users.iter().map(|u| (u.clone(), big)).collect();
        let other_cw20 = c.new_cw20(false, &bals, None);
        // bank denoms are case sensitive: most worlds stake "ustake", some an IBC voucher or a mixed-case denom
        let denom: String = match h.idx % 7 {
            3 => "ibc/27394FB092D2ECCD56123C74F36E4C1F926001CEADA9CA97EA622B25F41E5EB2".to_string(),
            5 => "uStake".to_string(),
            _ => STAKE_DENOM.to_string(),
        };
        let tok = if h.rng.chance(1, 2) {
            for u in &users {
                c.fund(u, big, &denom);
                c.fund(u, 1_000_000, OTHER_DENOM);
            }
            Tok::Native
        } else {
            Tok::Cw20(c.new_cw20(false, &bals, None))
        };
        let tpw: u128 = match h.rng.below(10) {
            0 => 1,
            1 => 1,
            2 => 3,
            3 => 1000,
            4 => 1u128 << 64,
            5 if self.prop == "C10" => 0,
            _ => h.rng.range(1, 50) as u128,
        };
        let min_bond: u128 = match h.rng.below(5) {
            0 => 0,
            1 => 1,
            2 => 5000,
            _ => h.rng.range(0, 200) as u128,
        };
        let period = match if h.idx % 16 == 11 { 6 + h.rng.below(4) } else { h.rng.below(6) } {
            // "lock for ever": the release time does not fit 64 bits - an unbond must be refused, never wrap around
            6 => Duration::Time(18_446_744_074),
            7 => Duration::Time(u64::MAX),
            8 => Duration::Height(u64::MAX),
            9 => Duration::Time(u64::MAX / 1_000_000_000),
            0 => Duration::Height(0),
            1 => Duration::Height(1),
            2 => Duration::Height(h.rng.range(2, 10)),
            3 => Duration::Time(0),
            4 => Duration::Time(1),
            _ => Duration::Time(h.rng.range(2, 60)),
        };
        let admin = mk_addr("stake-admin");
        let msg = InstantiateMsg {
            denom: match &tok {
                Tok::Native => Denom::Native(denom.clone()),
                Tok::Cw20(a) => Denom::Cw20(a.clone()),
            },
            tokens_per_weight: Uint128::new(tpw),
            min_bond: Uint128::new(min_bond),
            unbonding_period: period,
            admin: Some(admin.clone()),
        };
        let st = match c.instantiate(c.codes.stake, &owner, &msg, "stake", None) {
            Res::Ok(a) => a,
            _ => return None,
        };
        h.note(format!("cw4-stake token={tok:?} tokens_per_weight={tpw} min_bond={min_bond} period={period:?}"));
        let hook_pool = vec![c.new_sink(), c.new_sink(), c.new_sink()];
        let h0 = c.height();
        Some(World {
            c,
            st,
            tok,
            denom,
            other_cw20,
            tpw,
            min_bond,
            period,
            admin: Some(admin),
            former_admins: vec![],
            hooks: vec![],
            hook_pool,
            users,
            donated: 0,
            members: BTreeMap::new(),
            change_heights: BTreeSet::new(),
            h0,
            sink_seen: BTreeMap::new(),
        })
    }

    fn gen_op(&self, h: &mut Hist, w: &World, pre: &Snap) -> (String, Op) {
        let rng = &mut h.rng;
        let user = rng.pick_cloned(&w.users);
        let st = *pre.staked.get(&user).unwrap_or(&0);
        let weights: [u32; 12] = match self.prop {
            "C14" => [30, 1, 1, 1, 1, 1, 18, 3, 18, 12, 8, 0],
            "C09" => [40, 1, 1, 1, 1, 1, 30, 6, 4, 2, 1, 1],
            _ => [30, 3, 3, 2, 3, 3, 24, 20, 3, 2, 1, 2],
        };
        let amt = |rng: &mut crate::rng::Rng| -> u128 {
            let t = w.tpw.max(1);
            match rng.below(12) {
                0 => 0,
                1 => 1,
                2 => w.min_bond,
                3 => w.min_bond.saturating_sub(1),
                4 => t,
                5 => t.saturating_mul(3).saturating_sub(1),
                6 => (1u128 << 64).saturating_mul(t).saturating_add(5 * t), // quotient beyond 64 bits
                7 => (u64::MAX as u128).saturating_mul(t),
                _ => rng.range(1, 5000) as u128 * if rng.chance(1, 3) { t } else { 1 },
            }
        };
        match rng.weighted(&weights) {
            0 => (user, Op::Bond { amount: amt(rng) }),
            1 => (user, Op::BondWrongDenom { amount: 1 + rng.below(100) as u128 }),
            2 => (user, Op::BondTwoCoins { amount: 1 + rng.below(100) as u128 }),
            3 => (user, Op::BondNoFunds),
            4 => {
                if rng.chance(1, 2) {
                    (user, Op::BondNativeNamedLikeToken { amount: 1 + rng.below(100) as u128 })
                } else {
                    (user, Op::BondOtherCw20 { amount: 1 + rng.below(100) as u128 })
                }
            }
            5 => (user, Op::DirectReceive { amount: 1 + rng.below(1000) as u128 }),
            6 => {
                let a = match rng.below(8) {
                    0 => st,
                    1 => st.saturating_add(1),
                    2 => 0,
                    3 => st / 2,
                    4 => st.saturating_sub(w.min_bond).saturating_add(1), // drop just below min_bond
                    5 => st.saturating_sub(w.min_bond),                  // stay exactly at min_bond
                    _ => {
                        if st > 0 {
                            rng.range128(1, st)
                        } else {
                            1
                        }
                    }
                };
                (user, Op::Unbond { amount: a })
            }
            7 => (user, Op::Claim),
            8 | 9 | 10 => {
                let sender = match (&w.admin, rng.below(10)) {
                    (Some(a), 0..=6) => a.clone(),
                    (_, 7) if !w.former_admins.is_empty() => rng.pick_cloned(&w.former_admins),
                    _ => user,
                };
                let k = rng.below(10);
                let op = if k < 5 {
                    Op::AddHook { which: rng.below_usize(3) }
                } else if k < 8 {
                    Op::RemoveHook { which: rng.below_usize(3) }
                } else {
                    Op::UpdateAdmin {
                        admin: match rng.below(6) {
                            0 => None,
                            _ => Some(mk_addr(&format!("stake-admin-{}", rng.below(3)))),
                        },
                    }
                };
                // now and then the listening contract itself asks to be (un)subscribed
                let mut side = rng.clone();
                side.below(1000);
                let sender = match &op {
                    Op::AddHook { which } | Op::RemoveHook { which } if side.chance(1, 5) => w.hook_pool[*which].to_string(),
                    _ => sender,
                };
                (sender, op)
            }
            _ => (user, Op::Donate { amount: 1 + rng.below(500) as u128 }),
        }
    }

    fn apply(&self, w: &mut World, sender: &str, op: &Op) -> Res<AppResponse> {
        let st = w.st.clone();
        match op {
            Op::Bond { amount } => match w.tok.clone() {
                Tok::Native => {
                    let f: Vec<Coin> = if *amount == 0 { vec![] } else { vec![coin(*amount, w.denom.clone())] };
                    w.c.exec(sender, &st, &ExecuteMsg::Bond {}, &f)
                }
                Tok::Cw20(t) => w.c.exec(
                    sender,
                    &t,
                    &cw20::Cw20ExecuteMsg::Send { contract: st.to_string(), amount: Uint128::new(*amount), msg: to_json_binary(&ReceiveMsg::Bond {}).unwrap() },
                    &[],
                ),
            },
            Op::BondWrongDenom { amount } => w.c.exec(sender, &st, &ExecuteMsg::Bond {}, &[coin(*amount, OTHER_DENOM)]),
            Op::BondTwoCoins { amount } => {
                // a second coin of another denom, or (odd amounts) the staking denom listed twice
                let first = if *amount % 2 == 1 { w.denom.clone() } else { OTHER_DENOM.to_string() };
                let f = [coin(*amount, first), coin(*amount, w.denom.clone())];
                w.c.exec(sender, &st, &ExecuteMsg::Bond {}, &f)
            }
            Op::BondNoFunds => w.c.exec(sender, &st, &ExecuteMsg::Bond {}, &[]),
            Op::BondOtherCw20 { amount } => {
                let t = w.other_cw20.clone();
                w.c.exec(
                    sender,
                    &t,
                    &cw20::Cw20ExecuteMsg::Send { contract: st.to_string(), amount: Uint128::new(*amount), msg: to_json_binary(&ReceiveMsg::Bond {}).unwrap() },
                    &[],
                )
            }
            Op::BondNativeNamedLikeToken { amount } => {
                let d = match &w.tok {
                    Tok::Cw20(a) => a.to_string(),
                    // a different bank token whose name differs from the staking denom in letter case only
                    Tok::Native => {
                        let d = w.denom.clone();
                        let cand = match *amount % 6 {
                            0 => d.to_uppercase(),
                            1 => d.to_lowercase(),
                            2 => format!("factory/cosmwasm1xyz/{d}"), // has the staking denom as a suffix
                            3 => format!("x{d}"),
                            4 => format!("{d}x"),                      // ... or as a prefix
                            _ => format!(" {d}"),
                        };
                        // never the real thing
                        if cand == d { format!("{d}.") } else { cand }
                    }
                };
                w.c.fund(sender, *amount, &d);
                w.c.exec(sender, &st, &ExecuteMsg::Bond {}, &[coin(*amount, d)])
            }
            Op::DirectReceive { amount } => w.c.exec(
                sender,
                &st,
                &ExecuteMsg::Receive(cw20::Cw20ReceiveMsg { sender: sender.to_string(), amount: Uint128::new(*amount), msg: to_json_binary(&ReceiveMsg::Bond {}).unwrap() }),
                &[],
            ),
            Op::Unbond { amount } => w.c.exec(sender, &st, &ExecuteMsg::Unbond { tokens: Uint128::new(*amount) }, &[]),
            Op::Claim => w.c.exec(sender, &st, &ExecuteMsg::Claim {}, &[]),
            Op::AddHook { which } => {
                let a = w.hook_pool[*which].to_string();
                w.c.exec(sender, &st, &ExecuteMsg::AddHook { addr: a }, &[])
            }
            Op::RemoveHook { which } => {
                let a = w.hook_pool[*which].to_string();
                w.c.exec(sender, &st, &ExecuteMsg::RemoveHook { addr: a }, &[])
            }
            Op::UpdateAdmin { admin } => w.c.exec(sender, &st, &ExecuteMsg::UpdateAdmin { admin: admin.clone() }, &[]),
            Op::Donate { amount } => match w.tok.clone() {
                Tok::Native => w.c.exec_cosmos(sender, cosmwasm_std::BankMsg::Send { to_address: st.to_string(), amount: vec![coin(*amount, w.denom.clone())] }.into()),
                Tok::Cw20(t) => w.c.exec(sender, &t, &cw20::Cw20ExecuteMsg::Transfer { recipient: st.to_string(), amount: Uint128::new(*amount) }, &[]),
            },
        }
    }

    #[allow(clippy::too_many_lines)]
    fn step(&self, h: &mut Hist, w: &mut World, pre: &mut Snap, sender: &str, op: &Op) -> bool {
        let prop = self.prop;
        let hgt = w.c.height();
        let now = w.c.time_ns();
        let r = self.apply(w, sender, op);
        h.out.evaluations += 1;
        if h.keep_log {
            h.log.push(format!(
                "h={hgt} t={now} {} -> {op:?} => {}{}",
                short(sender),
                r.class(),
                match &r {
                    Res::Ok(_) => String::new(),
                    x => format!(" ({})", x.err_text().split_whitespace().collect::<Vec<_>>().join(" ").chars().rev().take(90).collect::<String>().chars().rev().collect::<String>()),
                }
            ));
        }
        if let Res::Abort(_) = &r {
            h.out.abort(&crate::direct::last_panic_site());
        }
        let ok = r.is_ok();
        let kind = op.kind();
        let Some(post) = w.snap(h, prop) else {
            return false;
        };
        let st_pre = *pre.staked.get(sender).unwrap_or(&0);
        let cls = if st_pre == 0 { 0 } else { 1 };
        h.out.distinct(&(kind, r.class(), matches!(w.tok, Tok::Native), cls, w.tpw == 1, w.min_bond == 0));

        // ---------------- model update from the call's outcome ----------------
        let is_user = w.users.iter().any(|u| u == sender);
        let mut expected_stake = pre.staked.clone();
        let mut expected_claims = pre.claims.clone();
        let mut expected_user_delta: BTreeMap<String, i128> = BTreeMap::new();
        let mut expected_holdings = pre.holdings as i128;
        match (op, ok) {
            (Op::Bond { amount }, true) => {
                *expected_stake.entry(sender.to_string()).or_insert(0) += *amount;
                expected_user_delta.insert(sender.to_string(), -(*amount as i128));
                expected_holdings += *amount as i128;
                h.out.count("bonds_ok");
            }
            (Op::Unbond { amount }, true) => {
                let e = expected_stake.entry(sender.to_string()).or_insert(0);
                if *amount > *e {
                    h.violate(&format!("{prop}/stake/unbond/accepted-above-stake"), format!("unbond {amount} with stake {e}"));
                    return false;
                }
                *e -= *amount;
                let rel = match w.period {
                    Duration::Height(n) => hgt.checked_add(n).map(Exp::H),
                    Duration::Time(s) => s.checked_mul(1_000_000_000).and_then(|d| now.checked_add(d)).map(Exp::T),
                };
                let Some(rel) = rel else {
                    // now + period is beyond the end of time: there is no release moment, so there may be no exit
                    h.violate(&format!("{prop}/claims/unbond/accepted-although-release-time-overflows"), format!("unbond of {amount} accepted at h={hgt} t={now} with period {:?}", w.period));
                    return false;
                };
                expected_claims.entry(sender.to_string()).or_default().push((*amount, rel));
                h.out.count("unbonds_ok");
                if *amount < st_pre {
                    h.out.count("partial_unbonds_ok");
                }
            }
            (Op::Claim, _) => {
                let mine = expected_claims.entry(sender.to_string()).or_default();
                let matured: u128 = mine.iter().filter(|c| c.1.expired(hgt, now)).fold(0u128, |a, c| a.saturating_add(c.0));
                let immature = mine.iter().filter(|c| !c.1.expired(hgt, now)).count();
                if ok {
                    h.out.count("claims_ok");
                    if immature > 0 {
                        h.out.count("claims_with_some_claims_still_immature");
                    }
                    if mine.iter().any(|c| c.1 == Exp::H(hgt) || c.1 == Exp::T(now)) {
                        h.out.count("claims_exactly_at_maturity");
                    }
                    mine.retain(|c| !c.1.expired(hgt, now));
                    expected_user_delta.insert(sender.to_string(), matured as i128);
                    expected_holdings -= matured as i128;
                    if prop == "C10" && !h.check(matured > 0, "C10/claim/succeeded-with-nothing-matured", || format!("claims {:?} at h={hgt} t={now}", pre.claims.get(sender))) {
                        return false;
                    }
                } else {
                    if matured == 0 && !mine.is_empty() {
                        h.out.count("claims_before_maturity_rejected");
                        if mine.iter().any(|c| c.1 == Exp::H(hgt + 1) || c.1 == Exp::T(now + 1)) {
                            h.out.count("claims_one_step_before_maturity_rejected");
                        }
                    }
                    if matured > 0 && prop == "C10" && matches!(r, Res::Err(_)) {
                        // matured claims must be payable (the contract is fully backed)
                        h.violate("C10/claim/matured-claims-not-paid", format!("{matured} matured for {sender} but Claim failed: {}", r.err_text()));
                        return false;
                    }
                }
            }
            (Op::Donate { amount }, true) => {
                w.donated += *amount;
                expected_user_delta.insert(sender.to_string(), -(*amount as i128));
                expected_holdings += *amount as i128;
            }
            (Op::BondWrongDenom { .. } | Op::BondTwoCoins { .. } | Op::BondNoFunds | Op::BondOtherCw20 { .. } | Op::BondNativeNamedLikeToken { .. } | Op::DirectReceive { .. }, _) => {
                h.out.count("foreign_token_attempts");
                if prop == "C10" && !h.check(!ok, &format!("C10/bond/{kind}/foreign-or-malformed-payment-accepted"), || format!("{op:?} by {sender} succeeded")) {
                    return false;
                }
            }
            _ => {}
        }

        if prop == "C10" {
            // stakes: only the caller's own bond / unbond
            for u in &w.users {
                let got = *post.staked.get(u).unwrap_or(&0);
                let want = *expected_stake.get(u).unwrap_or(&0);
                h.out.oracle_checks += 1;
                if got != want {
                    h.violate(
                        &format!("C10/stake/{kind}/staked-amount-wrong"),
                        format!("Staked({u}) = {got}, expected {want} after {kind} by {sender} (ok={ok}, before {})", pre.staked.get(u).unwrap_or(&0)),
                    );
                    return false;
                }
                let gc = post.claims.get(u).cloned().unwrap_or_default();
                let wc = expected_claims.get(u).cloned().unwrap_or_default();
                let mut a = gc.clone();
                let mut b = wc.clone();
                a.sort();
                b.sort();
                if a != b {
                    h.violate(&format!("C10/claims/{kind}/claims-differ-from-model"), format!("Claims({u}) = {gc:?}, expected {wc:?} (period {:?}, h={hgt} t={now})", w.period));
                    return false;
                }
                let b0 = *pre.user_bal.get(u).unwrap_or(&0) as i128;
                let b1 = *post.user_bal.get(u).unwrap_or(&0) as i128;
                let d = expected_user_delta.get(u).cloned().unwrap_or(0);
                if b1 != b0 + d {
                    h.violate(&format!("C10/payout/{kind}/user-balance-wrong"), format!("token balance of {u}: {b0} -> {b1}, expected change {d}"));
                    return false;
                }
            }
            if !h.check(post.holdings as i128 == expected_holdings, &format!("C10/backing/{kind}/holdings-change-wrong"), || {
                format!("contract holdings {} -> {}, expected {expected_holdings}", pre.holdings, post.holdings)
            }) {
                return false;
            }
            // fully backed
            let owed: u128 = post.staked.values().fold(0u128, |a, x| a.saturating_add(*x)).saturating_add(post.claims.values().flat_map(|v| v.iter().map(|c| c.0)).fold(0u128, |a, x| a.saturating_add(x)));
            if !h.check(post.holdings == owed.saturating_add(w.donated), &format!("C10/backing/{kind}/holdings-ne-stakes-plus-claims"), || {
                format!("holdings {} but stakes+claims {} (+ donated {})", post.holdings, owed, w.donated)
            }) {
                return false;
            }
            // weight follows stake
            for u in &w.users {
                let s = *post.staked.get(u).unwrap_or(&0);
                let want = w.expected_weight(s);
                let got = post.member.get(u).cloned().flatten();
                h.out.oracle_checks += 1;
                if w.min_bond == 0 && s == 0 {
                    continue; // ambiguous between text and documented behaviour: not judged
                }
                if w.tpw == 0 {
                    continue;
                }
                match (want, got) {
                    (None, None) => {}
                    (Some(x), Some(g)) => {
                        if x != g as u128 {
                            let sig = if x > u64::MAX as u128 { "C10/weight/quotient-beyond-64-bits-wrapped" } else { "C10/weight/not-stake-div-tokens-per-weight" };
                            h.violate(sig, format!("stake {s} tokens_per_weight {} => weight {x}, Member({u}) reports {g}", w.tpw));
                            return false;
                        }
                        if s == w.min_bond.max(1) {
                            h.out.count("members_exactly_at_min_bond");
                        }
                    }
                    (want, got) => {
                        h.violate("C10/weight/membership-ne-stake-at-least-min-bond", format!("stake {s}, min_bond {}: expected {want:?}, Member({u}) = {got:?}", w.min_bond));
                        return false;
                    }
                }
                if s > 0 && s < w.min_bond.max(1) {
                    h.out.count("stakes_below_min_bond_not_members");
                }
            }
        }

        // ---------------- membership timeline (C09 pass) ----------------
        for u in &w.users {
            let cur = post.member.get(u).cloned().flatten();
            let prev = w.members.get(u).and_then(|t| t.current().cloned()).flatten();
            if cur != prev {
                w.members.entry(u.clone()).or_default().set(hgt, cur);
                w.change_heights.insert(hgt);
            }
        }
        if prop == "C09" {
            let sum: u128 = post.listed.iter().map(|m| m.1 as u128).sum();
            if !h.check(sum == post.total as u128, "C09/stake/total-ne-sum-of-members", || format!("TotalWeight {} but members {:?}", post.total, post.listed)) {
                return false;
            }
            let listed: BTreeMap<String, u64> = post.listed.iter().cloned().collect();
            for u in &w.users {
                let m = post.member.get(u).cloned().flatten();
                if !h.check(listed.get(u).cloned() == m, "C09/stake/listing-differs-from-member-query", || format!("{u}: listed {:?}, Member {m:?}", listed.get(u))) {
                    return false;
                }
                // raw keys
                let raw = w.c.raw(&w.st, &cw4::member_key(u)).and_then(|v| cosmwasm_std::from_json::<u64>(&v).ok());
                if !h.check(raw == m, "C09/stake/raw-member-key-differs", || format!("{u}: raw {raw:?} smart {m:?}")) {
                    return false;
                }
                // at-height
                let mut hs: BTreeSet<u64> = [0, w.h0, w.h0 + 1, hgt.saturating_sub(1), hgt, hgt + 1, u64::MAX].into_iter().collect();
                for c in w.change_heights.iter().rev().take(4) {
                    hs.insert(c.saturating_sub(1));
                    hs.insert(*c);
                    hs.insert(c + 1);
                }
                for q in hs {
                    let got: Res<MemberResponse> = w.q(&QueryMsg::Member { addr: u.clone(), at_height: Some(q) });
                    let Res::Ok(got) = got else {
                        h.violate("C09/stake/member-at-height-query-failed", "failed".into());
                        return false;
                    };
                    let want = w.members.get(u).and_then(|t| t.at_start(q).cloned()).flatten();
                    h.out.oracle_checks += 1;
                    if got.weight != want {
                        h.violate(
                            "C09/stake/weight-at-height-wrong",
                            format!("Member({u}, at_height={q}) = {:?}, value at the start of block {q} was {want:?} (now={hgt}, changes {:?})", got.weight, w.members.get(u)),
                        );
                        return false;
                    }
                    if w.change_heights.contains(&q) {
                        h.out.count("stake_queries_at_a_change_height");
                    }
                }
            }
            let raw_total = w.c.raw(&w.st, cw4::TOTAL_KEY.as_bytes()).and_then(|v| cosmwasm_std::from_json::<u64>(&v).ok());
            if !h.check(raw_total == Some(post.total), "C09/stake/raw-total-key-differs", || format!("raw {raw_total:?} smart {}", post.total)) {
                return false;
            }
            h.out.count("stake_steps_checked");
        }

        // ---------------- admin / hooks (C14 pass) ----------------
        let was_admin = pre.admin.as_deref() == Some(sender);
        match (op, ok) {
            (Op::AddHook { which }, true) => w.hooks.push(w.hook_pool[*which].clone()),
            (Op::RemoveHook { which }, true) => {
                let a = w.hook_pool[*which].clone();
                w.hooks.retain(|x| *x != a);
            }
            (Op::UpdateAdmin { admin }, true) => {
                if let Some(a) = &w.admin {
                    if Some(a) != admin.as_ref() && !w.former_admins.contains(a) {
                        w.former_admins.push(a.clone());
                    }
                }
                w.admin = admin.clone();
            }
            _ => {}
        }
        if prop == "C14" {
            let admin_op = matches!(op, Op::AddHook { .. } | Op::RemoveHook { .. } | Op::UpdateAdmin { .. });
            if admin_op {
                if w.hook_pool.iter().any(|x| x.as_str() == sender) {
                    h.out.count("stake_hook_calls_sent_by_a_hook_contract");
                }
                if ok {
                    h.out.count("stake_admin_calls_ok");
                    if !h.check(was_admin, &format!("C14/stake/{kind}/accepted-from-non-admin"), || format!("{sender}, admin was {:?}", pre.admin)) {
                        return false;
                    }
                } else if !was_admin {
                    h.out.count("stake_non_admin_calls_rejected");
                    if w.former_admins.iter().any(|f| f == sender) {
                        h.out.count("stake_former_admin_calls_rejected");
                    }
                }
            }
            if !was_admin || !admin_op || !ok {
                if !h.check(pre.admin == post.admin && pre.hooks == post.hooks, &format!("C14/stake/{kind}/admin-or-hooks-changed-without-admin"), || {
                    format!("{:?}/{:?} -> {:?}/{:?} by {sender}", pre.admin, pre.hooks, post.admin, post.hooks)
                }) {
                    return false;
                }
            }
            if pre.admin.is_none() {
                h.out.count("stake_calls_after_admin_cleared");
                if !h.check(pre.admin == post.admin && pre.hooks == post.hooks && !(admin_op && ok), &format!("C14/stake/{kind}/changed-after-admin-cleared"), || "changed".into()) {
                    return false;
                }
            }
            let model_hooks: Vec<String> = w.hooks.iter().map(|a| a.to_string()).collect();
            if !h.check(post.hooks == model_hooks, &format!("C14/stake/{kind}/hook-list-differs-from-model"), || format!("{:?} vs {model_hooks:?}", post.hooks)) {
                return false;
            }
            // deliveries: registered hooks at call time = pre.hooks
            let w_before = pre.member.get(sender).cloned().flatten();
            let w_after = post.member.get(sender).cloned().flatten();
            let changed = is_user && w_before != w_after;
            for hk in w.hook_pool.clone() {
                let entries = w.new_hook_entries(&hk);
                let registered = pre.hooks.contains(&hk.to_string());
                let want = if changed && registered { 1 } else { 0 };
                h.out.oracle_checks += 1;
                if entries.len() != want {
                    h.violate(
                        &format!("C14/stake/{kind}/hook-deliveries-wrong"),
                        format!("hook {hk} (registered at call time: {registered}) received {} notifications, expected {want} (weight of {sender} {w_before:?} -> {w_after:?})", entries.len()),
                    );
                    return false;
                }
                for e in entries {
                    let v: serde_json::Value = serde_json::from_str(&e.payload).unwrap_or_default();
                    let d = &v["member_changed_hook"]["diffs"];
                    let good = d.as_array().map(|a| a.len() == 1).unwrap_or(false)
                        && d[0]["key"].as_str() == Some(sender)
                        && d[0]["old"].as_u64() == w_before
                        && d[0]["new"].as_u64() == w_after
                        && e.sender == w.st.as_str()
                        && e.funds.is_empty();
                    if !h.check(good, &format!("C14/stake/{kind}/hook-notification-untruthful"), || {
                        format!("payload {} from {}; true change of {sender}: {w_before:?} -> {w_after:?}", e.payload, e.sender)
                    }) {
                        return false;
                    }
                    h.out.count("stake_hook_deliveries_checked");
                }
                if !registered && changed && w.hooks.iter().all(|x| *x != hk) && w.sink_seen.contains_key(hk.as_str()) {
                    h.out.count("removed_hook_not_notified");
                }
            }
        }
        *pre = post;
        true
    }

    /// The bank of the AppDriver cannot hold balances whose sum exceeds u128, so stakes near the type limit
    /// are driven through the real entry points directly (funds attached to the call, native configuration).
    fn direct_extremes(&self, h: &mut Hist) {
        use crate::direct::World;
        use cosmwasm_std::MessageInfo;
        let users: Vec<String> = pool().actors[..3].to_vec();
        let mut w = World::new(h.rng.range(10, 5000), h.rng.range(1_600_000_000, 1_800_000_000));
        let tpw: u128 = *h.rng.pick(&[1u128, 7, 1_000_000_000, 1u128 << 64, 1_000_000_000_000_000_000_000_000_000_000]);
        let min_bond: u128 = *h.rng.pick(&[0u128, 1, 5, 1u128 << 70]);
        let msg = InstantiateMsg { denom: Denom::Native(STAKE_DENOM.into()), tokens_per_weight: Uint128::new(tpw), min_bond: Uint128::new(min_bond), unbonding_period: Duration::Height(3), admin: None };
        let creator = users[0].clone();
        let r = w.tx(|d, e| cw4_stake::contract::instantiate(d, e, MessageInfo { sender: Addr::unchecked(&creator), funds: vec![] }, msg));
        h.note(format!("direct cw4-stake: tokens_per_weight {tpw} min_bond {min_bond} => {}", r.class()));
        if !r.is_ok() {
            return;
        }
        let staked = |w: &World, u: &str| -> Option<u128> {
            w.q(|d, e| cw4_stake::contract::query(d, e, QueryMsg::Staked { address: u.to_string() }).and_then(|b| cosmwasm_std::from_json::<StakedResponse>(&b))).ok().map(|s| s.stake.u128())
        };
        let weight = |w: &World, u: &str| -> Option<Option<u64>> {
            w.q(|d, e| cw4_stake::contract::query(d, e, QueryMsg::Member { addr: u.to_string(), at_height: None }).and_then(|b| cosmwasm_std::from_json::<MemberResponse>(&b))).ok().map(|m| m.weight)
        };
        for _ in 0..h.tier.pick(30, 50) {
            w.advance(1, 5);
            let u = h.rng.pick_cloned(&users);
            let Some(before) = staked(&w, &u) else {
                h.violate("C10/direct/query-failed", format!("Staked({u})"));
                return;
            };
            let others: Vec<(String, Option<u128>)> = users.iter().filter(|x| **x != u).map(|x| (x.clone(), staked(&w, x))).collect();
            let room = u128::MAX - before;
            let bond = h.rng.chance(2, 3);
            let amt: u128 = if bond {
                match h.rng.below(8) {
                    0 => room,
                    1 => room.saturating_add(1).max(1),
                    2 => room.saturating_sub(h.rng.below(200) as u128),
                    3 => u128::MAX - h.rng.below(200) as u128,
                    4 => (room / 2).max(1),
                    5 => 1 + h.rng.below(2000) as u128,
                    6 => (u64::MAX as u128).saturating_mul(tpw.min(1 << 60)),
                    _ => (1u128 << 127) + h.rng.below(1000) as u128,
                }
            } else {
                match h.rng.below(4) {
                    0 => before,
                    1 => before.saturating_add(1),
                    2 => before / 2,
                    _ => 1 + h.rng.below(2000) as u128,
                }
            };
            let r = if bond {
                let funds = vec![coin(amt, STAKE_DENOM)];
                w.tx(|d, e| cw4_stake::contract::execute(d, e, MessageInfo { sender: Addr::unchecked(&u), funds }, ExecuteMsg::Bond {}))
            } else {
                w.tx(|d, e| cw4_stake::contract::execute(d, e, MessageInfo { sender: Addr::unchecked(&u), funds: vec![] }, ExecuteMsg::Unbond { tokens: Uint128::new(amt) }))
            };
            h.out.evaluations += 1;
            h.log(|| format!("{} {} {amt} (stake before {before}) => {}", short(&u), if bond { "bond" } else { "unbond" }, r.class()));
            if let Res::Abort(_) = &r {
                h.out.abort(&crate::direct::last_panic_site());
            }
            let Some(after) = staked(&w, &u) else {
                h.violate("C10/direct/query-failed", format!("Staked({u})"));
                return;
            };
            let want = if !r.is_ok() {
                Some(before)
            } else if bond {
                before.checked_add(amt)
            } else {
                before.checked_sub(amt)
            };
            h.out.oracle_checks += 1;
            h.out.distinct(&("direct", bond, r.class(), amt > room, tpw > 1 << 60));
            if want != Some(after) {
                h.violate(
                    &format!("C10/direct/{}/stake-not-changed-by-exactly-the-amount", if bond { "bond" } else { "unbond" }),
                    format!("{} of {amt} by {u} ({}): stake {before} -> {after}, expected {want:?}", if bond { "bond" } else { "unbond" }, r.class()),
                );
                return;
            }
            if r.is_ok() && bond && amt > room / 2 && amt > 1 << 100 {
                h.out.count("direct_bonds_near_the_top_of_u128_ok");
            }
            if !r.is_ok() && bond && amt > room {
                h.out.count("direct_bonds_beyond_u128_refused");
            }
            for (x, s0) in &others {
                if staked(&w, x) != *s0 {
                    h.violate("C10/direct/other-stake-changed", format!("{x}: {s0:?} -> {:?} by a call of {u}", staked(&w, x)));
                    return;
                }
            }
            // weight follows stake
            if let Some(wt) = weight(&w, &u) {
                let q = after / tpw;
                let good = match wt {
                    Some(x) => after >= min_bond.max(1) && q <= u64::MAX as u128 && x as u128 == q,
                    None => after < min_bond.max(1),
                };
                h.out.oracle_checks += 1;
                if !good {
                    h.violate("C10/direct/weight-not-stake-over-tokens-per-weight", format!("{u}: stake {after} tokens_per_weight {tpw} min_bond {min_bond} reported weight {wt:?}"));
                    return;
                }
            }
        }
        h.out.count("direct_histories_at_the_top_of_u128");
    }

    pub fn run(&self, h: &mut Hist) {
        if self.prop == "C10" && h.idx % 8 == 5 {
            self.direct_extremes(h);
            return;
        }
        let Some(mut w) = self.setup(h) else {
            return;
        };
        let Some(mut pre) = w.snap(h, self.prop) else {
            return;
        };
        let n = h.tier.pick(50, 80);
        for _ in 0..n {
            // time: onto claim maturities -1/0/+1
            if h.rng.chance(1, 2) {
                let hgt = w.c.height();
                let now = w.c.time_ns();
                let live: Vec<Exp> = pre.claims.values().flat_map(|v| v.iter().map(|c| c.1)).filter(|e| !e.expired(hgt, now)).collect();
                if !live.is_empty() && h.rng.chance(1, 2) {
                    match *h.rng.pick(&live) {
                        Exp::H(x) => {
                            let t = match h.rng.below(3) {
                                0 => x.saturating_sub(1),
                                1 => x,
                                _ => x + 1,
                            };
                            if t > hgt && t - hgt < 100 {
                                w.c.advance(t - hgt, (t - hgt) * 5);
                            } else {
                                w.c.advance(1, 5);
                            }
                        }
                        Exp::T(x) => {
                            let t = match h.rng.below(3) {
                                0 => x.saturating_sub(1),
                                1 => x,
                                _ => x + 1,
                            };
                            if t > now {
                                w.c.set_time_ns(t, 1);
                            } else {
                                w.c.advance(1, 5);
                            }
                        }
                        Exp::Never => w.c.advance(1, 5),
                    }
                } else {
                    w.c.advance(1, h.rng.range(0, 6));
                }
            }
            let (sender, op) = self.gen_op(h, &w, &pre);
            if !self.step(h, &mut w, &mut pre, &sender, &op) {
                return;
            }
        }
    }
}

impl Monitor for Stake {
    fn id(&self) -> &'static str {
        self.prop
    }
    fn engine(&self) -> &'static str {
        "cwv-app"
    }
    fn histories(&self, tier: Tier) -> u64 {
        tier.pick(1_000, 96_000)
    }
    fn mandatory(&self) -> Vec<&'static str> {
        let mut v = vec![
            "bonds_ok",
            "unbonds_ok",
            "partial_unbonds_ok",
            "claims_ok",
            "claims_exactly_at_maturity",
            "claims_before_maturity_rejected",
            "claims_one_step_before_maturity_rejected",
            "claims_with_some_claims_still_immature",
            "foreign_token_attempts",
            "members_exactly_at_min_bond",
            "stakes_below_min_bond_not_members",
        ];
        if self.prop == "C10" {
            v.extend(["direct_histories_at_the_top_of_u128", "direct_bonds_near_the_top_of_u128_ok", "direct_bonds_beyond_u128_refused"]);
        }
        v
    }
    fn rule(&self) -> &'static str {
        "seeded random histories on cw4-stake inside a cw-multi-test App with the real bank / cw20-base as stake token: tokens_per_weight in {1,3,1000,2^64,random}, min_bond in {0,1,5000,random}, height- and time-based unbonding periods incl. 0 and 1; three users bond (amounts up to quotients beyond 64 bits), partially unbond, claim at maturity -1/0/+1, and try wrong denoms, extra coins, another cw20 and direct Receive calls; third parties donate. After every call Staked, Claims, Member, TotalWeight and the real token balances of the contract and users are compared with an independent ledger. distinct = (operation, outcome, native?, caller had stake?, tokens_per_weight==1?, min_bond==0?)"
    }
    fn assumptions(&self) -> Vec<&'static str> {
        vec![
            "with min_bond = 0 the point stake = 0 is not judged (property text and documented behaviour differ)",
            "tokens_per_weight = 0 makes every bond abort (counted, not a violation)",
            "cw-multi-test bank / cw20-base balances are the ground truth for holdings",
        ]
    }
    fn run_history(&self, h: &mut Hist) {
        self.run(h)
    }
}

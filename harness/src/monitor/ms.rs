//! Multisig monitors (AppDriver): C03 status = implied outcome, C05 execute-at-most-once and
//! lifecycle, C06 ballots from the proposal's own snapshot, C15 deposits.
//! One world / workload, four oracle groups selected by `prop`.

use crate::chain::{wasm_exec, Chain, SinkExec};
use crate::core::{Hist, Monitor, Tier};
use crate::cw20w::{pool, short, Exp};
use crate::cw4w::Timeline;
use crate::direct::{mk_addr, Res};
use crate::refmodel::*;
use crate::rng::Rng;
use cosmwasm_std::{coin, Addr, BankMsg, Coin, CosmosMsg, Decimal, Uint128};
use cw3::{ProposalResponse, Status, Vote, VoteInfo, VoteListResponse};
use cw_multi_test::AppResponse;
use cw_utils::{Duration, Threshold, ThresholdResponse};
use std::collections::{BTreeMap, BTreeSet};

pub struct Ms {
    pub prop: &'static str,
}

#[derive(Clone, Copy, PartialEq, Eq, Debug, Hash)]
pub enum Kind {
    Fixed,
    Flex,
}

#[derive(Clone, Debug, PartialEq)]
pub enum PMsg {
    Ping { id: String },
    Bank { rcpt: String, amount: u128 },
    SelfExecute(u64),
    SelfClose(u64),
    SelfVote(u64, Vote),
    /// the multisig, as the admin of its own group, changes the membership (self-governed worlds only)
    GroupUpd { add: Vec<(String, u64)>, remove: Vec<String> },
    /// the multisig proposes to itself (it has to be a member of its own group), attaching nothing
    SelfPropose,
    /// pay the DEPOSIT token out of the multisig's own account (C15 worlds only)
    SpendDep { rcpt: String, amount: u128 },
}

#[derive(Clone, Debug)]
pub enum DepTok {
    Native(String),
    Cw20(Addr),
}

#[derive(Clone, Debug)]
pub struct Dep {
    pub amount: u128,
    pub token: DepTok,
    pub refund_failed: bool,
}

#[derive(Clone, Copy, Debug, PartialEq, Eq)]
pub enum Funds {
    Right,
    None,
    Short,
    Excess,
    OtherDenom,
    TwoCoins,
    /// exact amount, one coin, denom differing from the configured one only in letter case
    CaseVariant,
}

#[derive(Clone, Debug)]
pub enum Op {
    Propose { msgs: Vec<PMsg>, latest: Option<Exp>, funds: Funds },
    Vote { id: u64, vote: Vote },
    Execute { id: u64 },
    Close { id: u64 },
    GroupUpdate { add: Vec<(String, u64)>, remove: Vec<String> },
    SinkFail(bool),
    SetAllowance { amount: u128 },
}

impl Op {
    fn kind(&self) -> &'static str {
        match self {
            Op::Propose { .. } => "propose",
            Op::Vote { .. } => "vote",
            Op::Execute { .. } => "execute",
            Op::Close { .. } => "close",
            Op::GroupUpdate { .. } => "group_update",
            Op::SinkFail(_) => "sink_fail",
            Op::SetAllowance { .. } => "set_allowance",
        }
    }
}

#[derive(Clone, Debug, PartialEq)]
pub struct Obs {
    pub status: Status,
    pub rule: Rule,
    pub total: u64,
    pub expires: Exp,
    pub ballots: Vec<(String, Vote, u64)>,
    /// everything that must stay fixed after creation, serialised
    pub content: String,
}

pub struct PropModel {
    pub id: u64,
    pub proposer: String,
    pub created_h: u64,
    pub created_ns: u64,
    pub msgs: Vec<PMsg>,
    pub content: String,
    pub snapshot: BTreeMap<String, u64>,
    /// the group changed earlier in the proposal's own block (flex)
    pub same_block_change: bool,
    pub seen: Vec<Status>,
    pub executed: bool,
    pub closed: bool,
    pub rejected_before_expiry: bool,
    pub deposit_taken: bool,
    pub deposit_returned: u32,
    pub votes_ok: BTreeMap<String, (Vote, u64)>,
}

pub struct World {
    pub c: Chain,
    pub kind: Kind,
    pub ms: Addr,
    pub group: Option<Addr>,
    pub gadmin: String,
    pub sink: Addr,
    pub rule: Rule,
    pub period: Duration,
    pub executor: Option<ExecCfg>,
    pub dep: Option<Dep>,
    /// fixed: voters as accepted at instantiate (last write wins, as ListVoters shows them)
    pub fixed_voters: BTreeMap<String, u64>,
    pub fixed_requested: Vec<(String, u64)>,
    /// flex: shadow history of the group
    /// deposit tokens paid out of the multisig account by its own executed proposals (C15)
    pub dep_spent: u128,
    pub gmodel: BTreeMap<String, Timeline<Option<u64>>>,
    pub gchange_heights: BTreeSet<u64>,
    pub props: Vec<PropModel>,
    pub sink_failing: bool,
    pub sink_seen: u64,
    pub ping_ctr: u64,
    pub hist: u64,
    pub stranger: String,
    /// flex: the multisig is the admin of its own group; membership changes only through executed proposals
    pub self_governed: bool,
}

pub struct Override {
    pub kind: Kind,
    pub voters: Vec<(String, u64)>,
    pub rule: Rule,
    pub period: Duration,
    pub executor: Option<ExecCfg>,
    pub deposit: bool,
    /// force the kind of deposit token (None: drawn)
    pub dep_cw20: Option<bool>,
}

#[derive(Clone, Debug, PartialEq)]
pub enum ExecCfg {
    Member,
    Only(String),
}

const DEP_DENOM: &str = "udep";
const MSG_DENOM: &str = "umsg";
const OTHER_DENOM: &str = "uother";
const DEP_DENOM_CASE: &str = "UDEP";

fn to_rule(t: &ThresholdResponse) -> (Rule, u64) {
    match t {
        ThresholdResponse::AbsoluteCount { weight, total_weight } => (Rule::Count(*weight), *total_weight),
        ThresholdResponse::AbsolutePercentage { percentage, total_weight } => (Rule::Pct(percentage.atomics().u128()), *total_weight),
        ThresholdResponse::ThresholdQuorum { threshold, quorum, total_weight } => {
            (Rule::Quorum(threshold.atomics().u128(), quorum.atomics().u128()), *total_weight)
        }
    }
}

fn rule_to_threshold(rule: Rule) -> Threshold {
    let d = |a: u128| Decimal::from_atomics(Uint128::new(a), 18).unwrap();
    match rule {
        Rule::Count(w) => Threshold::AbsoluteCount { weight: w },
        Rule::Pct(p) => Threshold::AbsolutePercentage { percentage: d(p) },
        Rule::Quorum(p, q) => Threshold::ThresholdQuorum { threshold: d(p), quorum: d(q) },
    }
}

const GRID_P: [u128; 8] = [
    666_666_666_666_666_666, // 2/3 as an 18-decimal fraction
    555_555_555_555_555_555,
    500_000_000_000_000_000,
    500_000_001_000_000_000,
    510_000_000_000_000_000,
    666_666_667_000_000_000,
    999_999_999_000_000_000,
    1_000_000_000_000_000_000,
];
const GRID_Q: [u128; 6] = [
    333_333_333_333_333_333,
    1_000_000_000,
    10_000_000_000_000_000,
    400_000_000_000_000_000,
    750_000_000_000_000_000,
    1_000_000_000_000_000_000,
];

fn gen_rule(rng: &mut Rng, total: u64) -> Rule {
    match rng.below(3) {
        0 if total > 0 => Rule::Count(match rng.below(4) {
            0 => 1,
            1 => total,
            _ => rng.range(1, total),
        }),
        1 => Rule::Pct(*rng.pick(&GRID_P)),
        _ => Rule::Quorum(*rng.pick(&GRID_P), *rng.pick(&GRID_Q)),
    }
}

fn gen_w(rng: &mut Rng) -> u64 {
    match rng.below(12) {
        0 | 1 => 0,
        2 => 1,
        3 => 2,
        4 => 3,
        5 => 5,
        6 => 1_000_000_000,
        7 => 1u64 << 61,
        _ => rng.range(1, 9),
    }
}

fn attr(r: &AppResponse, key: &str) -> Option<String> {
    for e in &r.events {
        if e.ty == "wasm" {
            for a in &e.attributes {
                if a.key == key {
                    return Some(a.value.clone());
                }
            }
        }
    }
    None
}

impl World {
    fn expired(&self, e: &Exp) -> bool {
        e.expired(self.c.height(), self.c.time_ns())
    }

    fn group_weight_now(&self, a: &str) -> Option<u64> {
        self.gmodel.get(a).and_then(|t| t.current().cloned()).flatten()
    }
    fn group_weight_at_start(&self, a: &str, h: u64) -> Option<u64> {
        self.gmodel.get(a).and_then(|t| t.at_start(h).cloned()).flatten()
    }

    fn is_member_now(&self, a: &str) -> Option<u64> {
        match self.kind {
            Kind::Fixed => self.fixed_voters.get(a).cloned(),
            Kind::Flex => self.group_weight_now(a),
        }
    }

    fn authorised_executor(&self, caller: &str) -> bool {
        match (&self.kind, &self.executor) {
            (Kind::Fixed, _) | (_, None) => true,
            (_, Some(ExecCfg::Member)) => self.group_weight_now(caller).is_some(),
            (_, Some(ExecCfg::Only(a))) => a == caller,
        }
    }

    fn dep_balance(&self, a: &str) -> u128 {
        match &self.dep {
            None => 0,
            Some(Dep { token: DepTok::Native(d), .. }) => self.c.bank(a, d),
            Some(Dep { token: DepTok::Cw20(t), .. }) => self.c.cw20_balance(t, a),
        }
    }

    fn to_cosmos(&self, m: &PMsg) -> CosmosMsg {
        match m {
            PMsg::Ping { id } => wasm_exec(&self.sink, &SinkExec::Ping { id: id.clone() }, vec![]),
            PMsg::Bank { rcpt, amount } => BankMsg::Send {
                to_address: rcpt.clone(),
                amount: vec![coin(*amount, MSG_DENOM)],
            }
            .into(),
            PMsg::SelfExecute(id) => wasm_exec(&self.ms, &cw3_fixed_multisig::msg::ExecuteMsg::Execute { proposal_id: *id }, vec![]),
            PMsg::SelfClose(id) => wasm_exec(&self.ms, &cw3_fixed_multisig::msg::ExecuteMsg::Close { proposal_id: *id }, vec![]),
            PMsg::SelfVote(id, v) => wasm_exec(&self.ms, &cw3_fixed_multisig::msg::ExecuteMsg::Vote { proposal_id: *id, vote: *v }, vec![]),
            PMsg::GroupUpd { add, remove } => wasm_exec(
                self.group.as_ref().unwrap_or(&self.sink),
                &cw4_group::msg::ExecuteMsg::UpdateMembers { add: add.iter().map(|(a, x)| cw4::Member { addr: a.clone(), weight: *x }).collect(), remove: remove.clone() },
                vec![],
            ),
            PMsg::SelfPropose => wasm_exec(
                &self.ms,
                &cw3_fixed_multisig::msg::ExecuteMsg::Propose { title: "follow-up".into(), description: "proposed by the multisig itself".into(), msgs: vec![], latest: None },
                vec![],
            ),
            PMsg::SpendDep { rcpt, amount } => match &self.dep {
                Some(Dep { token: DepTok::Native(d), .. }) => BankMsg::Send { to_address: rcpt.clone(), amount: vec![coin(*amount, d.clone())] }.into(),
                Some(Dep { token: DepTok::Cw20(t), .. }) => wasm_exec(t, &cw20::Cw20ExecuteMsg::Transfer { recipient: rcpt.clone(), amount: Uint128::new(*amount) }, vec![]),
                None => wasm_exec(&self.sink, &SinkExec::Ping { id: "no-deposit-configured".into() }, vec![]),
            },
        }
    }

    fn observe(&self, id: u64) -> Res<Obs> {
        let p: Res<ProposalResponse> = self.c.query(&self.ms, &cw3_fixed_multisig::msg::QueryMsg::Proposal { proposal_id: id });
        let p = match p {
            Res::Ok(p) => p,
            Res::Err(e) => return Res::Err(e),
            Res::Abort(e) => return Res::Abort(e),
        };
        let mut ballots = vec![];
        let mut cursor: Option<String> = None;
        loop {
            let page: Res<VoteListResponse> = self.c.query(
                &self.ms,
                &cw3_fixed_multisig::msg::QueryMsg::ListVotes { proposal_id: id, start_after: cursor.clone(), limit: Some(30) },
            );
            let votes: Vec<VoteInfo> = match page {
                Res::Ok(v) => v.votes,
                Res::Err(e) => return Res::Err(e),
                Res::Abort(e) => return Res::Abort(e),
            };
            if votes.is_empty() {
                break;
            }
            cursor = votes.last().map(|v| v.voter.clone());
            for v in votes {
                ballots.push((v.voter, v.vote, v.weight));
            }
            if ballots.len() > 1000 {
                break;
            }
        }
        let (rule, total) = to_rule(&p.threshold);
        let content = format!(
            "{}|{}|{}|{:?}|{:?}|{}|{:?}",
            p.title,
            p.description,
            serde_json::to_string(&p.msgs).unwrap_or_default(),
            p.threshold,
            p.expires,
            p.proposer,
            p.deposit
        );
        Res::Ok(Obs {
            status: p.status,
            rule,
            total,
            expires: Exp::from(&p.expires),
            ballots,
            content,
        })
    }

    fn observe_all(&self, h: &mut Hist, prop: &str) -> Option<Vec<Obs>> {
        let mut v = vec![];
        for p in &self.props {
            match self.observe(p.id) {
                Res::Ok(o) => v.push(o),
                Res::Err(e) => {
                    h.violate(&format!("{prop}/{:?}/query/proposal-query-failed", self.kind), format!("proposal {}: {e}", p.id));
                    return None;
                }
                Res::Abort(e) => {
                    // a query that aborts on an existing proposal: status not answerable
                    let sig = if p.same_block_change {
                        format!("{prop}/flex/same-block-group-change-before-propose")
                    } else {
                        format!("{prop}/{:?}/query/proposal-query-aborts", self.kind)
                    };
                    h.violate(&sig, format!("proposal {}: query aborted at {e}", p.id));
                    return None;
                }
            }
        }
        Some(v)
    }
}

fn tally(ballots: &[(String, Vote, u64)]) -> Option<Tally> {
    let mut t = Tally::default();
    for (_, v, w) in ballots {
        let f = match v {
            Vote::Yes => &mut t.yes,
            Vote::No => &mut t.no,
            Vote::Abstain => &mut t.abstain,
            Vote::Veto => &mut t.veto,
        };
        *f = f.checked_add(*w)?;
    }
    Some(t)
}

/// the outcome the threshold rules imply: (must_be_passed, may_be_rejected)
fn implied(o: &Obs, expired: bool) -> Option<(bool, bool)> {
    let t = tally(&o.ballots)?;
    if t.voted() > o.total as u128 {
        return None; // ballots outweigh the total: rules undefined (C06's business)
    }
    if expired {
        let f = pass_final(o.rule, o.total, t);
        Some((f, !f))
    } else {
        Some((pass_now(o.rule, o.total, t), !can_still_pass(o.rule, o.total, t)))
    }
}

impl Ms {
    fn setup(&self, h: &mut Hist, over: Option<Override>) -> Option<World> {
        let pl = pool();
        let kind = match (&over, self.prop) {
            (Some(o), _) => o.kind,
            (_, "C15") => Kind::Flex,
            _ => {
                if h.idx % 2 == 0 {
                    Kind::Fixed
                } else {
                    Kind::Flex
                }
            }
        };
        let mut c = Chain::new(h.rng.range(10, 5000), h.rng.range(1_600_000_000, 1_800_000_000));
        let (fb, fs) = h.rng.far_future();
        c.advance(fb, fs);
        if fb + fs > 0 {
            h.out.count("worlds_far_in_the_future");
        }
        let jitter = h.rng.below(1_000_000_000);
        let t0 = c.time_ns();
        c.set_time_ns(t0 + jitter, 0);
        let owner = c.owner.to_string();
        let sink = c.new_sink();
        let gadmin = mk_addr("group-admin");
        let stranger = mk_addr("stranger");
        // voters
        let n = h.rng.range(1, 6) as usize;
        let mut voters: Vec<(String, u64)> = vec![];
        let hostile = self.prop == "C06" && h.rng.chance(1, 3) && over.is_none();
        for i in 0..n {
            let a = if hostile && !voters.is_empty() && h.rng.chance(1, 3) {
                h.rng.pick(&voters).0.clone() // repeated address
            } else {
                pl.actors[i].clone()
            };
            voters.push((a, gen_w(&mut h.rng)));
        }
        if let Some(o) = &over {
            voters = o.voters.clone();
        }
        if hostile && h.rng.chance(1, 3) && !voters.is_empty() {
            // weights whose sum does not fit 64 bits: instantiation has to refuse them
            let i = h.rng.below_usize(voters.len());
            voters[i].1 = if h.rng.chance(1, 2) { u64::MAX } else { 1u64 << 63 };
            if voters.len() > 1 {
                let j = (i + 1) % voters.len();
                voters[j].1 = voters[j].1.max(1u64 << 63);
            }
        }
        if hostile && h.rng.chance(1, 6) && !voters.is_empty() {
            // the same account once more in another spelling (upper-case bech32): one account, two rows
            let v = h.rng.pick(&voters).clone();
            voters.push((v.0.to_uppercase(), gen_w(&mut h.rng)));
            h.out.count("instantiate_attempts_with_one_account_in_two_spellings");
        }
        if hostile && h.rng.chance(1, 4) && !voters.is_empty() {
            // the same entry listed twice verbatim (same address, same weight)
            let v = h.rng.pick(&voters).clone();
            voters.push(v);
        }
        if kind == Kind::Fixed && !hostile && over.is_none() && matches!(self.prop, "C06" | "C03") && h.rng.chance(1, 5) {
            // a voter list longer than one listing page: further voters who never vote
            let extra = h.rng.range(8, 30);
            for i in 0..extra {
                voters.push((mk_addr(&format!("member-{i:02}")), 1 + h.rng.below(3)));
            }
            h.out.count("fixed_worlds_with_more_than_ten_voters");
        }
        let total: u128 = voters.iter().map(|v| v.1 as u128).sum();
        if total > u64::MAX as u128 {
            h.out.count("instantiate_attempts_with_total_beyond_u64");
        }
        let total = total.min(u64::MAX as u128) as u64;
        let mut rule = gen_rule(&mut h.rng, total);
        let mut period = match h.rng.below(20) {
            0..=2 => Duration::Height(h.rng.range(1, 4)),
            3..=9 => Duration::Height(h.rng.range(5, 30)),
            10 | 11 => Duration::Time(h.rng.range(1, 20)),
            _ => Duration::Time(h.rng.range(30, 300)),
        };
        if let Some(o) = &over {
            rule = o.rule;
            period = o.period;
        }
        let mut w = World {
            c,
            kind,
            ms: Addr::unchecked("unset"),
            group: None,
            gadmin: gadmin.clone(),
            sink,
            rule,
            period,
            executor: None,
            dep: None,
            fixed_voters: BTreeMap::new(),
            fixed_requested: voters.clone(),
            dep_spent: 0,
            gmodel: BTreeMap::new(),
            gchange_heights: BTreeSet::new(),
            props: vec![],
            sink_failing: false,
            sink_seen: 0,
            ping_ctr: 0,
            hist: h.idx,
            stranger,
            self_governed: false,
        };
        match kind {
            Kind::Fixed => {
                let msg = cw3_fixed_multisig::msg::InstantiateMsg {
                    voters: voters.iter().map(|(a, x)| cw3_fixed_multisig::msg::Voter { addr: a.clone(), weight: *x }).collect(),
                    threshold: rule_to_threshold(rule),
                    max_voting_period: period,
                };
                let r = w.c.instantiate(w.c.codes.fixed, &owner, &msg, "fixed", None);
                h.note(format!("fixed instantiate voters={:?} rule={rule:?} period={period:?} => {}", voters.iter().map(|v| (short(&v.0), v.1)).collect::<Vec<_>>(), r.class()));
                match r {
                    Res::Ok(a) => w.ms = a,
                    _ => {
                        h.out.count("instantiate_rejected");
                        return None;
                    }
                }
                for (a, x) in &voters {
                    w.fixed_voters.insert(a.clone(), *x);
                }
                let distinct: BTreeSet<&String> = voters.iter().map(|v| &v.0).collect();
                if distinct.len() != voters.len() {
                    h.out.count("fixed_instantiated_with_repeated_voter");
                }
            }
            Kind::Flex => {
                // the group must refuse repeated members: benign worlds list each once, hostile worlds
                // pass the list as generated (repeats incl. verbatim ones, oversized totals)
                let mut uniq: Vec<(String, u64)> = vec![];
                for v in &voters {
                    if let Some(u) = uniq.iter_mut().find(|u| u.0 == v.0) {
                        u.1 = v.1; // last write wins, as the group's storage would do
                    } else {
                        uniq.push(v.clone());
                    }
                }
                let weightless = self.prop == "C03" && over.is_none() && !hostile && h.idx % 20 == 13;
                if weightless {
                    // a group nobody has voting weight in
                    for u in uniq.iter_mut() {
                        u.1 = 0;
                    }
                }
                if !hostile && over.is_none() && matches!(self.prop, "C06" | "C03") && h.rng.chance(1, 5) && !weightless {
                    // a group larger than one listing page: further members who never vote
                    let extra = h.rng.range(8, 30);
                    for i in 0..extra {
                        uniq.push((mk_addr(&format!("member-{i:02}")), 1 + h.rng.below(3)));
                    }
                    h.out.count("flex_worlds_with_more_than_ten_group_members");
                }
                let listed: Vec<(String, u64)> = if hostile { voters.clone() } else { uniq.clone() };
                if listed.len() != uniq.len() {
                    h.out.count("group_instantiate_attempts_with_repeated_member");
                }
                let gmsg = cw4_group::msg::InstantiateMsg {
                    admin: Some(gadmin.clone()),
                    members: listed.iter().map(|(a, x)| cw4::Member { addr: a.clone(), weight: *x }).collect(),
                };
                let nohist = self.prop == "C06" && over.is_none() && !hostile && h.idx % 24 == 17;
                if nohist {
                    h.out.count("flex_worlds_on_a_group_without_history");
                }
                let gcode = if nohist { w.c.codes.group_nohist } else { w.c.codes.group };
                let g = match w.c.instantiate(gcode, &owner, &gmsg, "group", None) {
                    Res::Ok(a) => a,
                    _ => return None,
                };
                let h0 = w.c.height();
                for (a, x) in &uniq {
                    w.gmodel.entry(a.clone()).or_default().set(h0, Some(*x));
                }
                w.gchange_heights.insert(h0);
                let gtotal: u64 = uniq.iter().fold(0u64, |a, u| a.saturating_add(u.1));
                if listed.len() != uniq.len() {
                    h.out.count("group_instantiated_with_repeated_member");
                }
                let rule = match rule {
                    Rule::Count(x) if x > gtotal || gtotal == 0 => {
                        if gtotal == 0 {
                            Rule::Pct(GRID_P[0])
                        } else {
                            Rule::Count(gtotal)
                        }
                    }
                    r => r,
                };
                // on a weightless group also try thresholds that can never be valid (a count of zero passes with no Yes)
                let rule = if weightless { [Rule::Count(0), Rule::Pct(0), Rule::Quorum(500_000_000_000_000_000, 0)][(h.idx / 20 % 3) as usize] } else { rule };
                if weightless {
                    h.out.count("flex_instantiate_attempts_with_an_invalid_threshold_on_a_weightless_group");
                }
                w.rule = rule;
                w.group = Some(g.clone());
                w.executor = match h.rng.below(4) {
                    0 => Some(ExecCfg::Member),
                    1 => {
                        let a = pl.actors[h.rng.below_usize(3)].clone();
                        // now and then an executor that is no valid address: nobody (but that exact sender) may execute
                        Some(ExecCfg::Only(match h.rng.below(6) {
                            0 => {
                                h.out.count("flex_worlds_with_an_unusable_executor_address");
                                a.to_uppercase()
                            }
                            1 => {
                                h.out.count("flex_worlds_with_an_unusable_executor_address");
                                "not-an-address".to_string()
                            }
                            _ => a,
                        }))
                    }
                    _ => None,
                };
                if let Some(o) = &over {
                    w.executor = o.executor.clone();
                }
                // deposits
                let want_dep = (self.prop == "C15" || h.rng.chance(1, 5)) && over.as_ref().map(|o| o.deposit).unwrap_or(true);
                let mut dep_msg = None;
                if want_dep {
                    let amount = match h.rng.below(4) {
                        0 => 1,
                        _ => h.rng.range(2, 500) as u128,
                    };
                    let refund_failed = h.rng.chance(2, 3);
                    let native = match over.as_ref().and_then(|o| o.dep_cw20) {
                        Some(c) => !c,
                        None => h.rng.chance(1, 2),
                    };
                    if native {
                        w.dep = Some(Dep { amount, token: DepTok::Native(DEP_DENOM.into()), refund_failed });
                        dep_msg = Some(cw3::UncheckedDepositInfo {
                            amount: Uint128::new(amount),
                            denom: cw20::UncheckedDenom::Native(DEP_DENOM.into()),
                            refund_failed_proposals: refund_failed,
                        });
                    } else {
                        let bals: Vec<(String, u128)> = pl.actors.iter().map(|a| (a.clone(), 100_000u128)).collect();
                        let tok = w.c.new_cw20(false, &bals, None);
                        w.dep = Some(Dep { amount, token: DepTok::Cw20(tok.clone()), refund_failed });
                        dep_msg = Some(cw3::UncheckedDepositInfo {
                            amount: Uint128::new(amount),
                            denom: cw20::UncheckedDenom::Cw20(tok.to_string()),
                            refund_failed_proposals: refund_failed,
                        });
                    }
                }
                let msg = cw3_flex_multisig::msg::InstantiateMsg {
                    group_addr: g.to_string(),
                    threshold: rule_to_threshold(rule),
                    max_voting_period: period,
                    executor: w.executor.clone().map(|e| match e {
                        ExecCfg::Member => cw3_flex_multisig::state::Executor::Member,
                        ExecCfg::Only(a) => cw3_flex_multisig::state::Executor::Only(Addr::unchecked(a)),
                    }),
                    proposal_deposit: dep_msg,
                };
                let r = w.c.instantiate(w.c.codes.flex, &owner, &msg, "flex", None);
                h.note(format!(
                    "flex instantiate members={:?} rule={rule:?} period={period:?} executor={:?} deposit={:?} => {}",
                    uniq.iter().map(|v| (short(&v.0), v.1)).collect::<Vec<_>>(),
                    w.executor,
                    w.dep,
                    r.class()
                ));
                match r {
                    Res::Ok(a) => w.ms = a,
                    _ => {
                        h.out.count("instantiate_rejected");
                        return None;
                    }
                }
                if h.idx % 4 == 1 && over.is_none() {
                    // the multisig is registered as a listener of its own group: every membership change is
                    // delivered to it (MemberChangedHook) and must leave the proposals alone
                    let r = w.c.exec(&gadmin, &g, &cw4_group::msg::ExecuteMsg::AddHook { addr: w.ms.to_string() }, &[]);
                    if r.is_ok() {
                        h.out.count("flex_worlds_where_the_multisig_listens_to_its_group");
                    }
                }
                if over.is_none() && !hostile && (h.idx % 8 == 7 || h.idx % 16 == 5) {
                    // the usual deployment: the multisig governs the very group it votes with. The old admin is a
                    // stranger from now on, membership changes only through executed proposals
                    let r = w.c.exec(&gadmin, &g, &cw4_group::msg::ExecuteMsg::UpdateAdmin { admin: Some(w.ms.to_string()) }, &[]);
                    if r.is_ok() {
                        w.self_governed = true;
                        h.out.count("flex_worlds_governing_their_own_group");
                    }
                }
                // cw20 deposit: everybody pre-approves the multisig generously (changed later by SetAllowance)
                if let Some(Dep { token: DepTok::Cw20(t), .. }) = &w.dep {
                    let t = t.clone();
                    for a in &pl.actors {
                        let _ = w.c.exec(
                            a,
                            &t,
                            &cw20::Cw20ExecuteMsg::IncreaseAllowance { spender: w.ms.to_string(), amount: Uint128::new(50_000), expires: None },
                            &[],
                        );
                    }
                }
            }
        }
        // funds: actors hold deposit and other denoms, the multisig holds the message denom only
        for a in pl.actors.iter().chain([w.stranger.clone()].iter()) {
            w.c.fund(a, 1_000_000, DEP_DENOM);
            w.c.fund(a, 1_000_000, OTHER_DENOM);
            w.c.fund(a, 1_000_000, DEP_DENOM_CASE);
        }
        let ms = w.ms.to_string();
        w.c.fund(&ms, 1_000_000_000, MSG_DENOM);
        h.out.count(match kind {
            Kind::Fixed => "histories_fixed",
            Kind::Flex => "histories_flex",
        });
        Some(w)
    }

    fn gen_op(&self, h: &mut Hist, w: &World, obs: &[Obs]) -> (String, Op) {
        let pl = pool();
        let rng = &mut h.rng;
        let members: Vec<String> = match w.kind {
            Kind::Fixed => w.fixed_voters.keys().cloned().collect(),
            Kind::Flex => w.gmodel.keys().filter(|a| w.group_weight_now(a).is_some()).cloned().collect(),
        };
        let any_actor = |rng: &mut Rng| -> String {
            if rng.chance(1, 8) {
                w.stranger.clone()
            } else {
                rng.pick_cloned(&pl.actors)
            }
        };
        let member_or_any = |rng: &mut Rng| -> String {
            if !members.is_empty() && rng.chance(5, 6) {
                rng.pick_cloned(&members)
            } else {
                any_actor(rng)
            }
        };
        let nprops = w.props.len() as u64;
        let weights: [u32; 7] = match (self.prop, w.kind) {
            ("C06", Kind::Flex) => [14, 40, 8, 6, 30, 0, 2],
            ("C15", _) => [22, 36, 16, 16, 4, 2, 4],
            ("C05", _) => [16, 34, 24, 12, 4, 8, 2],
            (_, Kind::Flex) => [14, 46, 12, 10, 14, 2, 2],
            (_, Kind::Fixed) => [16, 52, 14, 14, 0, 4, 0],
        };
        let mut k = rng.weighted(&weights);
        if nprops == 0 && matches!(k, 1 | 2 | 3) {
            k = 0;
        }
        if nprops >= 5 && k == 0 {
            k = 1;
        }
        if w.kind == Kind::Fixed && k == 4 {
            k = 1;
        }
        if !matches!(w.dep, Some(Dep { token: DepTok::Cw20(_), .. })) && k == 6 {
            k = 1;
        }
        let pick_id = |rng: &mut Rng| -> u64 {
            if rng.chance(1, 25) {
                nprops + 1 + rng.below(2) // nonexistent
            } else {
                1 + rng.below(nprops.max(1))
            }
        };
        match k {
            0 => {
                // proposal content: unique pings / bank sends, sometimes re-entrant calls
                let nm = rng.below(4) as usize;
                let mut msgs = vec![];
                let pid = nprops + 1;
                for m in 0..nm {
                    let x = rng.below(12);
                    msgs.push(match x {
                        0..=5 => PMsg::Ping { id: format!("h{}-p{}-m{}", w.hist, pid, m) },
                        6 | 7 => PMsg::Bank { rcpt: mk_addr(&format!("rcpt-{}-{}-{}", w.hist, pid, m)), amount: 1 + rng.below(1000) as u128 },
                        8 => PMsg::SelfExecute(pid),
                        9 => PMsg::SelfExecute(pick_id(rng)),
                        10 => PMsg::SelfClose(pick_id(rng)),
                        _ => PMsg::SelfVote(pick_id(rng), Vote::Yes),
                    });
                }
                if let (true, Some(dep)) = (self.prop == "C15", &w.dep) {
                    // the multisig votes to spend from the very account that holds the deposits
                    if rng.chance(1, 5) {
                        let rcpt = if rng.chance(1, 2) { w.stranger.clone() } else { rng.pick_cloned(&pl.actors) };
                        msgs.push(PMsg::SpendDep { rcpt, amount: 1 + rng.below(2 * dep.amount.min(1 << 40) as u64) as u128 });
                    }
                }
                let hgt = w.c.height();
                let t = w.c.time_ns();
                let max_exp = match w.period {
                    Duration::Height(d) => Exp::H(hgt + d),
                    Duration::Time(sx) => Exp::T(t + sx * 1_000_000_000),
                };
                let around_max = match (max_exp, rng.below(6)) {
                    (Exp::H(x), 0) => Exp::H(x + 1),
                    (Exp::H(x), 1) => Exp::H(x),
                    (Exp::H(x), _) => Exp::H(x.saturating_sub(1)),
                    (Exp::T(x), 0) => Exp::T(x + 1),
                    (Exp::T(x), 1) => Exp::T(x + 500_000_000),
                    (Exp::T(x), 2) => Exp::T(x + 999_999_999),
                    (Exp::T(x), 3) => Exp::T(x),
                    (Exp::T(x), _) => Exp::T(x.saturating_sub(1)),
                    (e, _) => e,
                };
                if rng.chance(1, 4) {
                    return (member_or_any(rng), Op::Propose { msgs, latest: Some(around_max), funds: if matches!(w.dep, Some(Dep { token: DepTok::Native(_), .. })) { Funds::Right } else { Funds::None } });
                }
                let latest = match rng.below(10) {
                    0 => Some(Exp::Never),
                    1 => Some(Exp::H(hgt)),         // already expired
                    2 => Some(Exp::H(hgt + 1)),
                    3 => Some(Exp::H(hgt + 1_000_000)), // beyond max
                    4 => Some(Exp::T(t + 1_000_000_000)),
                    5 => Some(Exp::T(t + 10_000_000_000_000)),
                    _ => None,
                };
                let funds = if matches!(w.dep, Some(Dep { token: DepTok::Native(_), .. })) {
                    match rng.below(12) {
                        0 => Funds::None,
                        1 => Funds::Short,
                        2 => Funds::Excess,
                        3 => Funds::OtherDenom,
                        4 => Funds::TwoCoins,
                        5 => Funds::CaseVariant,
                        _ => Funds::Right,
                    }
                } else if rng.chance(1, 12) {
                    Funds::OtherDenom
                } else {
                    Funds::None
                };
                (member_or_any(rng), Op::Propose { msgs, latest, funds })
            }
            1 => {
                let id = pick_id(rng);
                // prefer proposals that are still open for voting
                let open: Vec<u64> = obs.iter().enumerate().filter(|(_, o)| !w.expired(&o.expires) && o.status != Status::Executed).map(|(i, _)| i as u64 + 1).collect();
                let id = if !open.is_empty() && rng.chance(4, 5) { *rng.pick(&open) } else { id };
                let vote = match rng.below(10) {
                    0..=4 => Vote::Yes,
                    5 | 6 => Vote::No,
                    7 | 8 => Vote::Abstain,
                    _ => Vote::Veto,
                };
                (member_or_any(rng), Op::Vote { id, vote })
            }
            2 => {
                let passed: Vec<u64> = obs.iter().enumerate().filter(|(_, o)| o.status == Status::Passed).map(|(i, _)| i as u64 + 1).collect();
                let id = if !passed.is_empty() && rng.chance(3, 4) { *rng.pick(&passed) } else { pick_id(rng) };
                (any_actor(rng), Op::Execute { id })
            }
            3 => (any_actor(rng), Op::Close { id: pick_id(rng) }),
            4 => {
                let na = rng.below(3) as usize;
                let mut add = vec![];
                for _ in 0..na {
                    let a = rng.pick_cloned(&pl.actors);
                    if !add.iter().any(|x: &(String, u64)| x.0 == a) {
                        add.push((a, gen_w(rng)));
                    }
                }
                let nr = rng.below(2) as usize;
                let mut remove = vec![];
                for _ in 0..nr {
                    remove.push(if !members.is_empty() { rng.pick_cloned(&members) } else { rng.pick_cloned(&pl.actors) });
                }
                if rng.chance(1, 6) && !remove.is_empty() {
                    let d = remove[0].clone();
                    remove.push(d); // the same member named twice
                }
                if w.self_governed && nprops < 9 && rng.chance(5, 6) {
                    // only the multisig may change its group: propose the change
                    let funds = if matches!(w.dep, Some(Dep { token: DepTok::Native(_), .. })) { Funds::Right } else { Funds::None };
                    return (member_or_any(rng), Op::Propose { msgs: vec![PMsg::GroupUpd { add, remove }], latest: None, funds });
                }
                let sender = if rng.chance(9, 10) { w.gadmin.clone() } else { any_actor(rng) };
                (sender, Op::GroupUpdate { add, remove })
            }
            5 => (w.c.owner.to_string(), Op::SinkFail(!w.sink_failing)),
            _ => {
                let d = w.dep.as_ref().map(|d| d.amount).unwrap_or(1);
                let amount = match rng.below(4) {
                    0 => 0,
                    1 => d.saturating_sub(1),
                    2 => d,
                    _ => d * 3,
                };
                (rng.pick_cloned(&pl.actors), Op::SetAllowance { amount })
            }
        }
    }

    #[allow(clippy::too_many_lines)]
    fn step(&self, h: &mut Hist, w: &mut World, pre: &mut Vec<Obs>, sender: &str, op: &Op) -> bool {
        let prop = self.prop;
        let kind = w.kind;
        let pl = pool();
        let hgt = w.c.height();
        let now = w.c.time_ns();
        // balances relevant for deposits / deliveries before the call
        let mut watch: Vec<String> = pl.actors.clone();
        watch.push(w.stranger.clone());
        watch.push(w.ms.to_string());
        let dep_pre: BTreeMap<String, u128> = watch.iter().map(|a| (a.clone(), w.dep_balance(a))).collect();
        let sink_pre = w.c.sink_count(&w.sink);
        let executed_before: Vec<bool> = w.props.iter().map(|m| m.executed).collect();
        // authority is judged on the membership as it was when the call arrived (an executed proposal may change it)
        let auth_on_arrival = w.authorised_executor(sender);
        let ms_auth_on_arrival = w.authorised_executor(w.ms.as_str());

        let r: Res<AppResponse> = match op {
            Op::Propose { msgs, latest, funds } => {
                let cm: Vec<CosmosMsg> = msgs.iter().map(|m| w.to_cosmos(m)).collect();
                let msg = cw3_fixed_multisig::msg::ExecuteMsg::Propose {
                    title: format!("prop-{}", w.props.len() + 1),
                    description: format!("by {}", short(sender)),
                    msgs: cm,
                    latest: latest.map(|e| e.to()),
                };
                let d = w.dep.as_ref().map(|d| d.amount).unwrap_or(7);
                let f: Vec<Coin> = match funds {
                    Funds::None => vec![],
                    Funds::Right => vec![coin(d, DEP_DENOM)],
                    Funds::Short => if d > 1 { vec![coin(d - 1, DEP_DENOM)] } else { vec![] },
                    Funds::Excess => vec![coin(d + 1, DEP_DENOM)],
                    Funds::OtherDenom => vec![coin(d, OTHER_DENOM)],
                    Funds::TwoCoins => vec![coin(d, DEP_DENOM), coin(1, OTHER_DENOM)],
                    Funds::CaseVariant => vec![coin(d, DEP_DENOM_CASE)],
                };
                let ms = w.ms.clone();
                w.c.exec(sender, &ms, &msg, &f)
            }
            Op::Vote { id, vote } => {
                let ms = w.ms.clone();
                w.c.exec(sender, &ms, &cw3_fixed_multisig::msg::ExecuteMsg::Vote { proposal_id: *id, vote: *vote }, &[])
            }
            Op::Execute { id } => {
                let ms = w.ms.clone();
                w.c.exec(sender, &ms, &cw3_fixed_multisig::msg::ExecuteMsg::Execute { proposal_id: *id }, &[])
            }
            Op::Close { id } => {
                let ms = w.ms.clone();
                w.c.exec(sender, &ms, &cw3_fixed_multisig::msg::ExecuteMsg::Close { proposal_id: *id }, &[])
            }
            Op::GroupUpdate { add, remove } => {
                let g = w.group.clone().unwrap();
                w.c.exec(
                    sender,
                    &g,
                    &cw4_group::msg::ExecuteMsg::UpdateMembers {
                        add: add.iter().map(|(a, x)| cw4::Member { addr: a.clone(), weight: *x }).collect(),
                        remove: remove.clone(),
                    },
                    &[],
                )
            }
            Op::SinkFail(on) => {
                let s = w.sink.clone();
                w.c.sink_fail(&s, *on);
                w.sink_failing = *on;
                Res::Ok(AppResponse::default())
            }
            Op::SetAllowance { amount } => {
                if let Some(Dep { token: DepTok::Cw20(t), .. }) = &w.dep {
                    let t = t.clone();
                    let ms = w.ms.to_string();
                    // set the allowance to exactly `amount`
                    let cur: cw20::AllowanceResponse = w
                        .c
                        .query(&t, &cw20::Cw20QueryMsg::Allowance { owner: sender.to_string(), spender: ms.clone() })
                        .ok()
                        .unwrap_or_default();
                    let _ = w.c.exec(sender, &t, &cw20::Cw20ExecuteMsg::DecreaseAllowance { spender: ms.clone(), amount: cur.allowance, expires: None }, &[]);
                    w.c.exec(sender, &t, &cw20::Cw20ExecuteMsg::IncreaseAllowance { spender: ms, amount: Uint128::new(*amount), expires: None }, &[])
                } else {
                    Res::Ok(AppResponse::default())
                }
            }
        };
        h.out.evaluations += 1;
        if h.keep_log {
            h.log.push(format!(
                "h={hgt} t={now} {} -> {op:?} => {}{}",
                short(sender),
                r.class(),
                match &r {
                    Res::Ok(_) => String::new(),
                    x => format!(" ({})", x.err_text().split_whitespace().collect::<Vec<_>>().join(" ").chars().rev().take(100).collect::<String>().chars().rev().collect::<String>()),
                }
            ));
        }
        let ok = r.is_ok();
        if let Res::Abort(_) = &r {
            h.out.abort(&crate::direct::last_panic_site());
            h.out.count("aborted_calls");
        }

        // ---- model updates that do not depend on observations
        let mut created: Option<u64> = None;
        match (op, &r) {
            (Op::GroupUpdate { add, remove }, Res::Ok(_)) => {
                for (a, x) in add {
                    w.gmodel.entry(a.clone()).or_default().set(hgt, Some(*x));
                }
                for a in remove {
                    if w.group_weight_now(a).is_some() {
                        w.gmodel.entry(a.clone()).or_default().set(hgt, None);
                    }
                }
                w.gchange_heights.insert(hgt);
                h.out.count("group_updates_ok");
            }
            (Op::Propose { msgs, .. }, Res::Ok(resp)) => {
                let id = attr(resp, "proposal_id").and_then(|s| s.parse::<u64>().ok());
                let want = w.props.len() as u64 + 1;
                if !h.check(id == Some(want), &format!("{prop}/{kind:?}/propose/id-not-next-in-sequence"), || {
                    format!("proposal_id attribute {id:?}, expected {want}")
                }) {
                    return false;
                }
                let snapshot: BTreeMap<String, u64> = match kind {
                    Kind::Fixed => w.fixed_voters.clone(),
                    Kind::Flex => w.gmodel.keys().filter_map(|a| w.group_weight_at_start(a, hgt).map(|x| (a.clone(), x))).collect(),
                };
                let same_block_change = kind == Kind::Flex && w.gchange_heights.contains(&hgt);
                if same_block_change {
                    h.out.count("proposals_created_in_a_block_with_an_earlier_group_change");
                }
                w.props.push(PropModel {
                    id: want,
                    proposer: sender.to_string(),
                    created_h: hgt,
                    created_ns: now,
                    msgs: msgs.clone(),
                    content: String::new(),
                    snapshot,
                    same_block_change,
                    seen: vec![],
                    executed: false,
                    closed: false,
                    rejected_before_expiry: false,
                    deposit_taken: w.dep.is_some(),
                    deposit_returned: 0,
                    votes_ok: BTreeMap::new(),
                });
                created = Some(want);
                h.out.count("proposals_created");
            }
            _ => {}
        }

        // ---- observe
        let Some(post) = w.observe_all(h, prop) else {
            return false;
        };
        let dep_post: BTreeMap<String, u128> = watch.iter().map(|a| (a.clone(), w.dep_balance(a))).collect();
        let new_sink = w.c.sink_log(&w.sink, sink_pre);

        let target: Option<u64> = match op {
            Op::Vote { id, .. } | Op::Execute { id } | Op::Close { id } => Some(*id),
            _ => None,
        };
        let target_pre: Option<&Obs> = target.and_then(|id| pre.get(id as usize - 1));
        let pre_status = target_pre.map(|o| o.status);
        let pre_expired = target_pre.map(|o| w.expired(&o.expires));
        h.out.distinct(&(kind, op.kind(), r.class(), pre_status.map(|s| s as u8), pre_expired, rule_kind(w.rule)));

        // ================= content fixed at creation, ids, expiry clamp (C05) =================
        if let Some(id) = created {
            let o = &post[id as usize - 1];
            let m = &mut w.props[id as usize - 1];
            m.content = o.content.clone();
            if prop == "C05" {
                // expires never later than max_voting_period after the creation block; same kind
                let max = match w.period {
                    Duration::Height(d) => Exp::H(hgt + d),
                    Duration::Time(s) => Exp::T(now + s * 1_000_000_000),
                };
                let fine = match (o.expires, max) {
                    (Exp::H(a), Exp::H(b)) => a <= b,
                    (Exp::T(a), Exp::T(b)) => a <= b,
                    _ => false,
                };
                if !h.check(fine, &format!("C05/{kind:?}/propose/expiry-beyond-max-voting-period"), || {
                    format!("expires {:?}, maximum {:?}", o.expires, max)
                }) {
                    return false;
                }
                if let Op::Propose { latest: Some(l), .. } = op {
                    if *l == o.expires {
                        h.out.count("proposals_with_requested_expiry");
                    } else {
                        h.out.count("proposals_with_clamped_expiry");
                    }
                }
            }
        }
        if prop == "C05" {
            for (i, o) in post.iter().enumerate() {
                let m = &w.props[i];
                h.out.oracle_checks += 1;
                if !m.content.is_empty() && m.content != o.content {
                    h.violate(&format!("C05/{kind:?}/content/changed-after-creation"), format!("proposal {}: {} -> {}", m.id, m.content, o.content));
                    return false;
                }
            }
            // list queries agree on ids 1..N ascending / descending
            let lp: Res<cw3::ProposalListResponse> = w.c.query(&w.ms, &cw3_fixed_multisig::msg::QueryMsg::ListProposals { start_after: None, limit: Some(30) });
            let rp: Res<cw3::ProposalListResponse> = w.c.query(&w.ms, &cw3_fixed_multisig::msg::QueryMsg::ReverseProposals { start_before: None, limit: Some(30) });
            if let (Res::Ok(lp), Res::Ok(rp)) = (lp, rp) {
                let ids: Vec<u64> = lp.proposals.iter().map(|p| p.id).collect();
                let mut rids: Vec<u64> = rp.proposals.iter().map(|p| p.id).collect();
                rids.reverse();
                let want: Vec<u64> = (1..=w.props.len() as u64).collect();
                if !h.check(ids == want && rids == want, &format!("C05/{kind:?}/ids/not-unique-increasing"), || {
                    format!("ListProposals ids {ids:?}, ReverseProposals (reversed) {rids:?}, created {want:?}")
                }) {
                    return false;
                }
                for (p, o) in lp.proposals.iter().zip(post.iter()) {
                    if !h.check(p.status == o.status, &format!("C05/{kind:?}/list/status-differs-from-point-query"), || format!("{:?} vs {:?}", p.status, o.status)) {
                        return false;
                    }
                }
            }
        }

        // ================= lifecycle monotone (C05) + bookkeeping =================
        for (i, o) in post.iter().enumerate() {
            let expired = w.expired(&o.expires);
            let m = &mut w.props[i];
            let last = m.seen.last().cloned();
            if last != Some(o.status) {
                if let Some(l) = last {
                    let legal = matches!((l, o.status), (Status::Open, Status::Passed) | (Status::Open, Status::Rejected) | (Status::Passed, Status::Executed));
                    if prop == "C05" && !legal {
                        h.out.oracle_checks += 1;
                        h.violate(&format!("C05/{kind:?}/lifecycle/illegal-status-move"), format!("proposal {}: {:?} -> {:?} (history {:?})", m.id, l, o.status, m.seen));
                        return false;
                    }
                    h.out.count(&format!("status_moves_{:?}_to_{:?}", l, o.status));
                }
                m.seen.push(o.status);
            }
            if o.status == Status::Rejected && !expired {
                m.rejected_before_expiry = true;
            }
        }

        // which proposals were executed in this step: the target of a successful Execute, plus
        // proposals reached through nested Execute messages of those (and observed Executed)
        let mut newly: Vec<u64> = vec![];
        if let (Op::Execute { id }, true) = (op, ok) {
            if (*id as usize) <= w.props.len() {
                newly.push(*id);
                let mut i = 0;
                while i < newly.len() {
                    let cur = newly[i];
                    for m in w.props[cur as usize - 1].msgs.clone() {
                        if let PMsg::SelfExecute(q) = m {
                            if (q as usize) <= post.len() && !newly.contains(&q) {
                                let was = pre.get(q as usize - 1).map(|p| p.status);
                                if post[q as usize - 1].status == Status::Executed && was != Some(Status::Executed) {
                                    newly.push(q);
                                }
                            }
                        }
                    }
                    i += 1;
                }
            }
        }
        for id in &newly {
            w.props[*id as usize - 1].executed = true;
        }
        // membership changes carried by the proposals executed in this step, in the order they ran
        if let Some(first) = newly.first().cloned() {
            fn walk(w: &World, id: u64, newly: &[u64], seen: &mut Vec<u64>, out: &mut Vec<(Vec<(String, u64)>, Vec<String>)>) {
                if seen.contains(&id) || seen.len() > 16 {
                    return;
                }
                seen.push(id);
                for m in &w.props[id as usize - 1].msgs {
                    match m {
                        PMsg::GroupUpd { add, remove } => out.push((add.clone(), remove.clone())),
                        PMsg::SelfExecute(q) if newly.contains(q) => walk(w, *q, newly, seen, out),
                        _ => {}
                    }
                }
            }
            let mut ups = vec![];
            walk(w, first, &newly, &mut vec![], &mut ups);
            for (add, remove) in ups {
                for (a, x) in &add {
                    w.gmodel.entry(a.clone()).or_default().set(hgt, Some(*x));
                }
                for a in &remove {
                    if w.group_weight_now(a).is_some() {
                        w.gmodel.entry(a.clone()).or_default().set(hgt, None);
                    }
                }
                w.gchange_heights.insert(hgt);
                h.out.count("group_updates_by_the_multisig_itself");
            }
        }
        // anything that turned Executed without being in that set
        let mut rogue: Vec<u64> = vec![];
        for (i, o) in post.iter().enumerate() {
            let was = pre.get(i).map(|p| p.status);
            if o.status == Status::Executed && was != Some(Status::Executed) && !newly.contains(&(i as u64 + 1)) {
                rogue.push(i as u64 + 1);
            }
        }

        // ================= C03: the list queries report the same status / threshold / expiry =================
        if prop == "C03" && !post.is_empty() {
            for reverse in [false, true] {
                let mut listed: Vec<ProposalResponse> = vec![];
                let mut cursor: Option<u64> = None;
                loop {
                    let page: Res<cw3::ProposalListResponse> = if reverse {
                        w.c.query(&w.ms, &cw3_fixed_multisig::msg::QueryMsg::ReverseProposals { start_before: cursor, limit: Some(30) })
                    } else {
                        w.c.query(&w.ms, &cw3_fixed_multisig::msg::QueryMsg::ListProposals { start_after: cursor, limit: Some(30) })
                    };
                    let Res::Ok(page) = page else { break };
                    if page.proposals.is_empty() {
                        break;
                    }
                    cursor = page.proposals.last().map(|p| p.id);
                    listed.extend(page.proposals);
                    if listed.len() > 200 {
                        break;
                    }
                }
                for p in &listed {
                    let Some(o) = post.get(p.id as usize - 1) else { continue };
                    let (rule, total) = to_rule(&p.threshold);
                    h.out.oracle_checks += 1;
                    if p.status != o.status || rule != o.rule || total != o.total || Exp::from(&p.expires) != o.expires {
                        h.violate(
                            &format!("C03/{kind:?}/list/listed-proposal-differs-from-point-query"),
                            format!("{} proposal {}: listed status {:?} rule {:?} total {} expires {:?}; Proposal query says {:?} {:?} {} {:?}", if reverse { "ReverseProposals" } else { "ListProposals" }, p.id, p.status, rule, total, p.expires, o.status, o.rule, o.total, o.expires),
                        );
                        return false;
                    }
                }
                if !h.check(listed.len() == post.len(), &format!("C03/{kind:?}/list/listing-incomplete"), || format!("{} of {} proposals listed", listed.len(), post.len())) {
                    return false;
                }
            }
            h.out.count("list_queries_compared_with_point_queries");
        }

        // ================= C03: status = implied outcome =================
        if prop == "C03" {
            for (i, o) in post.iter().enumerate() {
                let m = &w.props[i];
                // the rule a proposal is judged by is the one the multisig was configured with
                h.out.oracle_checks += 1;
                if o.rule != w.rule {
                    h.violate(&format!("C03/{kind:?}/rule/reported-rule-is-not-the-configured-one"), format!("proposal {} reports rule {:?}, the multisig was instantiated with {:?}", m.id, o.rule, w.rule));
                    return false;
                }
                let expired = w.expired(&o.expires);
                let Some((must_pass, may_reject)) = implied(o, expired) else {
                    h.out.count("proposals_not_judged_ballots_outweigh_total");
                    continue;
                };
                let t = tally(&o.ballots).unwrap();
                if !rule_exact(o.rule) {
                    // 10..18 decimals: the library may be up to one vote below the exact requirement,
                    // never stricter than it
                    h.out.count("observations_with_18_decimal_thresholds");
                    let t1 = Tally { yes: t.yes.saturating_add(1), ..t };
                    let within_one = if expired { pass_final(o.rule, o.total, t1) } else { pass_now(o.rule, o.total.max(1), t1) || pass_now(o.rule, o.total, t1) };
                    let kindr = rule_kind(o.rule);
                    h.out.oracle_checks += 1;
                    match o.status {
                        Status::Passed => {
                            if t.yes == 0 || !(must_pass || within_one) {
                                h.violate(&format!("C03/{kind:?}/{kindr}/passed-more-than-one-vote-below-threshold"), format!("proposal {} Passed; rule {:?} total {} tally {t:?} expired={expired}", m.id, o.rule, o.total));
                                return false;
                            }
                        }
                        Status::Open | Status::Rejected => {
                            if must_pass && !m.executed && o.status == Status::Open {
                                h.violate(&format!("C03/{kind:?}/{kindr}/open-but-decided"), format!("proposal {} Open; rule {:?} total {} tally {t:?} expired={expired}", m.id, o.rule, o.total));
                                return false;
                            }
                            if o.status == Status::Open && expired {
                                h.violate(&format!("C03/{kind:?}/{kindr}/open-but-decided"), format!("proposal {} Open after expiry", m.id));
                                return false;
                            }
                        }
                        Status::Executed => {
                            if !m.executed {
                                h.violate(&format!("C03/{kind:?}/{kindr}/executed-without-execute"), format!("proposal {}", m.id));
                                return false;
                            }
                        }
                        Status::Pending => {}
                    }
                    continue;
                }
                h.out.oracle_checks += 1;
                h.out.state(&(rule_kind(o.rule), o.status as u8, expired, must_pass, may_reject, t.yes == 0, t.abstain > 0));
                let kindr = rule_kind(o.rule);
                match o.status {
                    Status::Executed => {
                        if !h.check(m.executed, &format!("C03/{kind:?}/{kindr}/executed-without-execute"), || format!("proposal {} reports Executed, no Execute succeeded", m.id)) {
                            return false;
                        }
                    }
                    Status::Passed => {
                        h.out.count("observed_passed");
                        if t.yes == 0 {
                            h.violate(&format!("C03/{kind:?}/{kindr}/passed-with-zero-yes"), format!("proposal {} Passed with tally {t:?} total {}", m.id, o.total));
                            return false;
                        }
                        if !h.check(must_pass && !m.executed, &format!("C03/{kind:?}/{kindr}/passed-but-rules-do-not-imply-it"), || {
                            format!("proposal {} Passed; rule {:?} total {} tally {t:?} expired={expired} executed={}", m.id, o.rule, o.total, m.executed)
                        }) {
                            return false;
                        }
                    }
                    Status::Rejected => {
                        h.out.count("observed_rejected");
                        if !h.check(may_reject && !must_pass, &format!("C03/{kind:?}/{kindr}/rejected-but-could-still-pass"), || {
                            format!("proposal {} Rejected; rule {:?} total {} tally {t:?} expired={expired}", m.id, o.rule, o.total)
                        }) {
                            return false;
                        }
                    }
                    Status::Open => {
                        h.out.count("observed_open");
                        if !h.check(!expired && !must_pass, &format!("C03/{kind:?}/{kindr}/open-but-decided"), || {
                            format!("proposal {} Open; rule {:?} total {} tally {t:?} expired={expired} must_pass={must_pass}", m.id, o.rule, o.total)
                        }) {
                            return false;
                        }
                    }
                    Status::Pending => {
                        h.violate(&format!("C03/{kind:?}/{kindr}/pending-status"), "Pending is never used".into());
                        return false;
                    }
                }
                if expired && must_pass {
                    h.out.count("passed_only_at_expiry_or_after");
                }
                if t.yes == 0 && t.abstain > 0 {
                    h.out.count("tallies_all_abstain_or_no_yes");
                }
            }
        }

        // ================= Execute / Close admission (C03 + C05) =================
        if let (Op::Execute { id }, Some(o)) = (op, target_pre) {
            let m_executed = executed_before.get(*id as usize - 1).cloned().unwrap_or(false);
            let auth = auth_on_arrival;
            let benign = w.props[*id as usize - 1].msgs.iter().all(|m| match m {
                PMsg::Ping { .. } => !w.sink_failing,
                PMsg::Bank { .. } => true,
                _ => false,
            });
            if ok {
                h.out.count("executes_ok");
                if prop == "C03" || prop == "C05" {
                    if !h.check(o.status == Status::Passed, &format!("{prop}/{kind:?}/execute/admitted-although-not-passed"), || {
                        format!("Execute({id}) succeeded, status before the call was {:?}", o.status)
                    }) {
                        return false;
                    }
                }
                if prop == "C05" {
                    if !h.check(auth, &format!("C05/{kind:?}/execute/unauthorised-executor-admitted"), || {
                        format!("{sender} executed proposal {id}; executor setting {:?}", w.executor)
                    }) {
                        return false;
                    }
                    if !h.check(!m_executed, &format!("C05/{kind:?}/execute/executed-twice"), || format!("proposal {id} executed a second time")) {
                        return false;
                    }
                    // proposals executed through nested Execute messages were executed by the multisig itself, which
                    // needs the configured executor's authority like any other caller
                    if newly.len() > 1 {
                        h.out.count("nested_executions_judged_for_executor_authority");
                        let ms_addr = w.ms.to_string();
                        let _ = &ms_addr;
                        if !h.check(ms_auth_on_arrival, &format!("C05/{kind:?}/execute/unauthorised-executor-admitted"), || {
                            format!("proposals {:?} were executed by nested Execute calls sent by the multisig itself; executor setting {:?}", &newly[1..], w.executor)
                        }) {
                            return false;
                        }
                    }
                }
            } else {
                if m_executed {
                    h.out.count("repeated_execute_rejected");
                }
                if o.status == Status::Passed && !auth {
                    h.out.count("unauthorised_execute_rejected");
                }
                if o.status == Status::Passed && auth && !benign {
                    h.out.count("failed_dispatch_of_passed_proposal");
                    // a failed dispatch leaves it Passed and retryable
                    let after = &post[*id as usize - 1];
                    if prop == "C05" && !h.check(after.status == Status::Passed, &format!("C05/{kind:?}/execute/failed-dispatch-changed-status"), || {
                        format!("proposal {id}: {:?} after a failed Execute", after.status)
                    }) {
                        return false;
                    }
                }
                if (prop == "C03" || prop == "C05") && o.status == Status::Passed && auth && benign {
                    // deposit refund must be possible too (always is: the multisig holds it)
                    if !h.check(false, &format!("{prop}/{kind:?}/execute/passed-proposal-not-admitted"), || {
                        format!("Execute({id}) by authorised {sender} failed although the proposal is Passed: {}", r.err_text())
                    }) {
                        return false;
                    }
                }
            }
        }
        if let (Op::Close { id }, Some(o)) = (op, target_pre) {
            if ok {
                h.out.count("closes_ok");
                let expired = pre_expired.unwrap_or(false);
                if prop == "C03" || prop == "C05" {
                    if !h.check(expired && !matches!(o.status, Status::Passed | Status::Executed), &format!("{prop}/{kind:?}/close/admitted-wrongly"), || {
                        format!("Close({id}) succeeded; status before {:?}, expired={expired}", o.status)
                    }) {
                        return false;
                    }
                }
                if prop == "C15" && w.dep.as_ref().map(|d| d.refund_failed).unwrap_or(false) && w.props[*id as usize - 1].deposit_taken {
                    // the deposit goes back on Close only for a proposal that really failed: voting over and not passed
                    if !h.check(expired && !matches!(o.status, Status::Passed | Status::Executed), "C15/close/deposit-returned-for-a-proposal-that-has-not-failed", || {
                        format!("Close({id}) succeeded and refunds are on; status before {:?}, expired={expired}", o.status)
                    }) {
                        return false;
                    }
                }
                w.props[*id as usize - 1].closed = true;
            } else if o.status == Status::Passed {
                h.out.count("close_of_passed_rejected");
            } else if !pre_expired.unwrap_or(true) {
                h.out.count("close_before_expiry_rejected");
            }
        }

        // ================= deliveries (C05) =================
        if prop == "C05" {
            // expected pings of this step, in order
            let mut expected: Vec<String> = vec![];
            let mut structural_ok = true;
            fn expand(w: &World, id: u64, newly: &[u64], out: &mut Vec<String>, ok: &mut bool, depth: u32) {
                if depth > 6 {
                    return;
                }
                for m in &w.props[id as usize - 1].msgs {
                    match m {
                        PMsg::Ping { id } => out.push(id.clone()),
                        PMsg::SelfExecute(q) => {
                            if newly.contains(q) && *q != id && (*q as usize) <= w.props.len() {
                                expand(w, *q, newly, out, ok, depth + 1);
                            } else {
                                *ok = false; // a nested Execute that did not execute anything must have failed the whole call
                            }
                        }
                        _ => {}
                    }
                }
            }
            match (op, ok) {
                (Op::Execute { id }, true) if (*id as usize) <= w.props.len() => {
                    expand(w, *id, &newly, &mut expected, &mut structural_ok, 0);
                    if !h.check(newly.contains(id), &format!("C05/{kind:?}/execute/succeeded-without-marking-executed"), || format!("proposal {id} not Executed after a successful Execute")) {
                        return false;
                    }
                    if !h.check(structural_ok, &format!("C05/{kind:?}/execute/nested-execute-failed-but-call-succeeded"), || format!("proposal {id}")) {
                        return false;
                    }
                    if w.props[*id as usize - 1].msgs.iter().any(|m| matches!(m, PMsg::SelfExecute(_))) {
                        h.out.count("reentrant_execute_calls_ok");
                    }
                }
                _ => {}
            }
            if !h.check(rogue.is_empty(), &format!("C05/{kind:?}/{}/proposal-executed-outside-execute", op.kind()), || {
                format!("proposals {rogue:?} became Executed in {} (ok={ok}) without a successful Execute reaching them", op.kind())
            }) {
                return false;
            }
            let got: Vec<String> = new_sink
                .iter()
                .filter_map(|e| serde_json::from_str::<serde_json::Value>(&e.payload).ok())
                .filter_map(|v| v["ping"]["id"].as_str().map(|s| s.to_string()))
                .collect();
            if !h.check(got == expected, &format!("C05/{kind:?}/{}/deliveries-differ-from-proposed-messages", op.kind()), || {
                format!("delivered to sink {got:?}, expected exactly {expected:?} (newly executed {newly:?}, ok={ok})")
            }) {
                return false;
            }
            for e in &new_sink {
                if !h.check(e.sender == w.ms.as_str(), &format!("C05/{kind:?}/deliveries/not-sent-by-multisig"), || format!("{e:?}")) {
                    return false;
                }
            }
            if !got.is_empty() {
                h.out.add("sink_deliveries_checked", got.len() as u64);
            }
            // bank messages: delivered exactly once iff the proposal is executed
            for m in &w.props {
                for pm in &m.msgs {
                    if let PMsg::Bank { rcpt, amount } = pm {
                        let b = w.c.bank(rcpt, MSG_DENOM);
                        let want = if m.executed { *amount } else { 0 };
                        h.out.oracle_checks += 1;
                        if b != want {
                            h.violate(
                                &format!("C05/{kind:?}/deliveries/bank-send-not-exactly-once"),
                                format!("proposal {} (executed={}) bank message of {amount} to {rcpt}: recipient holds {b}", m.id, m.executed),
                            );
                            return false;
                        }
                        if m.executed {
                            h.out.count("bank_deliveries_checked");
                        }
                    }
                }
            }
            // at most once over the whole history: a ping is delivered at most as often as proposals carry it
            // (ids are unique per message, except where a proposal deliberately lists the same message twice)
            let all = w.c.sink_log(&w.sink, 0);
            let mut carried: BTreeMap<String, u32> = BTreeMap::new();
            for m in &w.props {
                for pm in &m.msgs {
                    if let PMsg::Ping { id } = pm {
                        *carried.entry(id.clone()).or_insert(0) += 1;
                    }
                }
            }
            let mut seen: BTreeMap<String, u32> = BTreeMap::new();
            for e in &all {
                let id = serde_json::from_str::<serde_json::Value>(&e.payload).ok().and_then(|v| v["ping"]["id"].as_str().map(|s| s.to_string())).unwrap_or_else(|| e.payload.clone());
                let n = seen.entry(id.clone()).or_insert(0);
                *n += 1;
                if *n > *carried.get(&id).unwrap_or(&1) {
                    h.violate(&format!("C05/{kind:?}/deliveries/message-delivered-twice"), format!("{} delivered {} times, proposals carry it {} time(s)", e.payload, n, carried.get(&id).unwrap_or(&0)));
                    return false;
                }
            }
        }

        // ================= C06: ballots and snapshot =================
        if prop == "C06" {
            for (i, o) in post.iter().enumerate() {
                let m = &w.props[i];
                let expired = w.expired(&o.expires);
                let snap_total: u128 = m.snapshot.values().map(|x| *x as u128).sum();
                let f5 = m.same_block_change;
                // (3) total = sum of snapshot
                h.out.oracle_checks += 1;
                if o.total as u128 != snap_total {
                    let detail = format!("proposal {}: total_weight {} but the snapshot {:?} sums to {snap_total}", m.id, o.total, m.snapshot);
                    if f5 {
                        // confined to this proposal's total / proposer ballot: keep checking everything else
                        h.violate_continue("C06/flex/same-block-group-change-before-propose", detail);
                    } else {
                        let sig = if kind == Kind::Fixed && w.fixed_requested.len() != w.fixed_voters.len() {
                            "C06/Fixed/instantiate/repeated-voter-inflates-total".to_string()
                        } else {
                            format!("C06/{kind:?}/total/not-sum-of-snapshot")
                        };
                        h.violate(&sig, detail);
                        return false;
                    }
                }
                // (1) one ballot per address
                let mut voters = BTreeSet::new();
                let mut sum: u128 = 0;
                for (a, _, wt) in &o.ballots {
                    if !voters.insert(a.clone()) {
                        h.violate(&format!("C06/{kind:?}/ballots/two-ballots-for-one-address"), format!("proposal {}: {a}", m.id));
                        return false;
                    }
                    sum += *wt as u128;
                    // (2) weight = snapshot weight
                    let s = m.snapshot.get(a).cloned();
                    h.out.oracle_checks += 1;
                    let is_proposer_ballot = *a == m.proposer;
                    let good = match s {
                        Some(x) => *wt == x && (x > 0 || is_proposer_ballot),
                        None => false,
                    };
                    if !good {
                        let detail = format!("proposal {} (created h={}): ballot of {a} has weight {wt}, snapshot weight {s:?}", m.id, m.created_h);
                        if f5 && is_proposer_ballot {
                            h.violate_continue("C06/flex/same-block-group-change-before-propose", detail);
                        } else {
                            let sig = if is_proposer_ballot {
                                format!("C06/{kind:?}/ballots/proposer-weight-not-from-snapshot")
                            } else {
                                format!("C06/{kind:?}/ballots/weight-not-from-snapshot")
                            };
                            h.violate(&sig, detail);
                            return false;
                        }
                    }
                }
                if sum > o.total as u128 {
                    h.out.oracle_checks += 1;
                    let detail = format!("proposal {}: ballots {sum} > total {}", m.id, o.total);
                    if f5 {
                        h.violate_continue("C06/flex/same-block-group-change-before-propose", detail);
                    } else {
                        h.violate(&format!("C06/{kind:?}/ballots/outweigh-total"), detail);
                        return false;
                    }
                }
                // (5) later membership changes never alter ballots / total: ballots only grow by successful votes
                if let Some(p) = pre.get(i) {
                    let grew_by_vote = matches!(op, Op::Vote { id, .. } if *id == m.id) && ok;
                    h.out.oracle_checks += 1;
                    let same_prefix = p.ballots.iter().all(|b| o.ballots.contains(b));
                    let added = o.ballots.len() - p.ballots.len().min(o.ballots.len());
                    if !(same_prefix && p.total == o.total && (added == 0 || (added == 1 && grew_by_vote))) {
                        h.violate(
                            &format!("C06/{kind:?}/{}/ballots-or-total-changed-without-a-vote", op.kind()),
                            format!("proposal {}: ballots {:?} -> {:?}, total {} -> {}", m.id, p.ballots, o.ballots, p.total, o.total),
                        );
                        return false;
                    }
                }
                let _ = expired;
            }
            // the point queries tell the same story as the listings
            {
                let mut who: Vec<String> = pool().actors.clone();
                who.push(w.stranger.clone());
                for (i, o) in post.iter().enumerate() {
                    let id = w.props[i].id;
                    for a in &who {
                        let r: Res<cw3::VoteResponse> = w.c.query(&w.ms, &cw3_fixed_multisig::msg::QueryMsg::Vote { proposal_id: id, voter: a.clone() });
                        let Res::Ok(r) = r else {
                            h.violate(&format!("C06/{kind:?}/query/vote-query-failed"), format!("Vote{{{id}, {a}}}"));
                            return false;
                        };
                        let listed = o.ballots.iter().find(|b| &b.0 == a).cloned();
                        let point = r.vote.map(|v| (v.voter, v.vote, v.weight));
                        h.out.oracle_checks += 1;
                        if listed != point {
                            h.violate(&format!("C06/{kind:?}/query/vote-query-differs-from-listing"), format!("proposal {id} voter {a}: Vote says {point:?}, ListVotes says {listed:?}"));
                            return false;
                        }
                    }
                }
                // ListVoters / Voter against the membership the monitor knows
                let mut listed: Vec<(String, u64)> = vec![];
                let mut cursor: Option<String> = None;
                loop {
                    let page: Res<cw3::VoterListResponse> = w.c.query(&w.ms, &cw3_fixed_multisig::msg::QueryMsg::ListVoters { start_after: cursor.clone(), limit: Some(30) });
                    let Res::Ok(page) = page else { break };
                    if page.voters.is_empty() {
                        break;
                    }
                    cursor = page.voters.last().map(|v| v.addr.clone());
                    listed.extend(page.voters.into_iter().map(|v| (v.addr, v.weight)));
                    if listed.len() > 500 {
                        break;
                    }
                }
                let expect: Vec<(String, u64)> = match kind {
                    Kind::Fixed => w.fixed_voters.iter().map(|(a, x)| (a.clone(), *x)).collect(),
                    Kind::Flex => w.gmodel.keys().filter_map(|a| w.group_weight_now(a).map(|x| (a.clone(), x))).collect(),
                };
                let mut l2 = listed.clone();
                l2.sort();
                h.out.oracle_checks += 1;
                if l2 != expect {
                    h.violate(&format!("C06/{kind:?}/query/voter-list-differs-from-membership"), format!("ListVoters {listed:?}, membership {expect:?}"));
                    return false;
                }
                for a in &who {
                    let r: Res<cw3::VoterResponse> = w.c.query(&w.ms, &cw3_fixed_multisig::msg::QueryMsg::Voter { address: a.clone() });
                    let point = match r {
                        Res::Ok(r) => r.weight,
                        _ => {
                            h.violate(&format!("C06/{kind:?}/query/voter-query-failed"), format!("Voter{{{a}}}"));
                            return false;
                        }
                    };
                    h.out.oracle_checks += 1;
                    if point != w.is_member_now(a) {
                        h.violate(&format!("C06/{kind:?}/query/voter-query-differs-from-membership"), format!("Voter{{{a}}} = {point:?}, membership says {:?}", w.is_member_now(a)));
                        return false;
                    }
                }
                h.out.count("point_queries_compared_with_listings");
            }
            if let (Op::Vote { id, vote }, Some(o)) = (op, target_pre) {
                let m = &w.props[*id as usize - 1];
                let s = m.snapshot.get(sender).cloned();
                let already = o.ballots.iter().any(|b| b.0 == sender);
                let expired = pre_expired.unwrap_or(false);
                if ok {
                    h.out.count("votes_ok");
                    if !h.check(!already, &format!("C06/{kind:?}/vote/second-vote-accepted"), || format!("{sender} voted twice on {id}")) {
                        return false;
                    }
                    if !h.check(!expired, &format!("C06/{kind:?}/vote/accepted-after-expiry"), || format!("vote on {id} after expiry")) {
                        return false;
                    }
                    if !h.check(o.status != Status::Executed, &format!("C06/{kind:?}/vote/accepted-on-executed"), || format!("vote on executed {id}")) {
                        return false;
                    }
                    if !h.check(s.map(|x| x >= 1).unwrap_or(false), &format!("C06/{kind:?}/vote/accepted-without-snapshot-weight"), || {
                        format!("{sender} voted on {id} (created h={}); snapshot weight {s:?}", m.created_h)
                    }) {
                        return false;
                    }
                    let after = &post[*id as usize - 1];
                    let mine = after.ballots.iter().find(|b| b.0 == sender);
                    if !h.check(mine.map(|b| b.1 == *vote && Some(b.2) == s).unwrap_or(false), &format!("C06/{kind:?}/vote/ballot-not-recorded-faithfully"), || {
                        format!("ballot {mine:?}, cast {vote:?} with snapshot weight {s:?}")
                    }) {
                        return false;
                    }
                    if kind == Kind::Flex {
                        let nowv = w.group_weight_now(sender);
                        if nowv != s {
                            h.out.count("votes_where_current_weight_differs_from_snapshot");
                        }
                        if nowv.is_none() {
                            h.out.count("votes_by_members_removed_after_creation");
                        }
                    }
                } else {
                    if already {
                        h.out.count("second_votes_rejected");
                    }
                    if expired {
                        h.out.count("votes_after_expiry_rejected");
                    }
                    if s.is_none() && kind == Kind::Flex && w.group_weight_now(sender).is_some() {
                        h.out.count("votes_by_members_added_after_creation_rejected");
                    }
                    if s == Some(0) {
                        h.out.count("zero_weight_votes_rejected");
                    }
                }
            }
        }

        // ================= C15: deposits =================
        if prop == "C15" {
            if let Some(dep) = w.dep.clone() {
                let d = dep.amount;
                let ms = w.ms.to_string();
                // expected movement of the deposit token in this step
                let mut expect: BTreeMap<String, i128> = BTreeMap::new();
                let mut add = |a: &str, x: i128| *expect.entry(a.to_string()).or_insert(0) += x;
                match op {
                    Op::Propose { funds, .. } => {
                        if ok {
                            add(sender, -(d as i128));
                            add(&ms, d as i128);
                            h.out.count("deposits_taken");
                            if let DepTok::Native(_) = dep.token {
                                if !h.check(*funds == Funds::Right, "C15/propose/accepted-with-wrong-native-funds", || format!("Propose accepted with funds {funds:?}, deposit is {d}")) {
                                    return false;
                                }
                            }
                        } else if let DepTok::Native(_) = dep.token {
                            if *funds != Funds::Right {
                                h.out.count(&format!("propose_with_{:?}_funds_rejected", funds));
                            }
                        } else {
                            h.out.count("propose_rejected_cw20_deposit_config");
                        }
                    }
                    Op::Execute { .. } if ok => {
                        for id in &newly {
                            let m = &mut w.props[*id as usize - 1];
                            if m.deposit_taken {
                                m.deposit_returned += 1;
                                let p = m.proposer.clone();
                                add(&p, d as i128);
                                add(&ms, -(d as i128));
                                h.out.count("deposits_returned_on_execute");
                            }
                        }
                        // proposal messages may spend the deposit token out of the multisig's account
                        for id in &newly {
                            for pm in w.props[*id as usize - 1].msgs.clone() {
                                if let PMsg::SpendDep { rcpt, amount } = pm {
                                    add(&rcpt, amount as i128);
                                    add(&ms, -(amount as i128));
                                    w.dep_spent = w.dep_spent.saturating_add(amount);
                                    h.out.count("deposit_token_spent_by_proposal_messages");
                                }
                            }
                        }
                        // proposal messages may close other proposals (the whole call succeeded, so
                        // every nested Close succeeded too): their deposits follow the Close rule
                        let mut nested_closed: Vec<u64> = vec![];
                        for id in &newly {
                            for pm in &w.props[*id as usize - 1].msgs {
                                if let PMsg::SelfClose(q) = pm {
                                    if (*q as usize) <= w.props.len() && !nested_closed.contains(q) {
                                        nested_closed.push(*q);
                                    }
                                }
                            }
                        }
                        for q in nested_closed {
                            let m = &mut w.props[q as usize - 1];
                            m.closed = true;
                            h.out.count("closes_nested_in_proposal_messages");
                            if dep.refund_failed && m.deposit_taken {
                                m.deposit_returned += 1;
                                let p = m.proposer.clone();
                                add(&p, d as i128);
                                add(&ms, -(d as i128));
                                h.out.count("deposits_returned_on_close");
                            }
                        }
                    }
                    Op::Close { id } if ok => {
                        if dep.refund_failed {
                            let m = &mut w.props[*id as usize - 1];
                            if m.deposit_taken {
                                m.deposit_returned += 1;
                                let p = m.proposer.clone();
                                add(&p, d as i128);
                                add(&ms, -(d as i128));
                                h.out.count("deposits_returned_on_close");
                            }
                        } else {
                            h.out.count("closes_without_refund_configured");
                        }
                    }
                    _ => {}
                }
                for a in &watch {
                    let b0 = *dep_pre.get(a).unwrap_or(&0) as i128;
                    let b1 = *dep_post.get(a).unwrap_or(&0) as i128;
                    let want = b0 + expect.get(a).cloned().unwrap_or(0);
                    h.out.oracle_checks += 1;
                    if b1 != want {
                        let site = match op {
                            Op::Propose { .. } => "propose/deposit-not-taken-exactly",
                            Op::Execute { .. } => "execute/deposit-not-returned-exactly-to-proposer",
                            Op::Close { .. } => "close/deposit-refund-wrong",
                            _ => "other/deposit-token-moved",
                        };
                        h.violate(
                            &format!("C15/{site}"),
                            format!("{} (ok={ok}) by {sender}: deposit-token balance of {a} {b0} -> {b1}, expected {want} (deposit {d}, refund_failed={})", op.kind(), dep.refund_failed),
                        );
                        return false;
                    }
                }
                for m in &w.props {
                    if !h.check(m.deposit_returned <= 1, "C15/ledger/deposit-returned-twice", || format!("proposal {}", m.id)) {
                        return false;
                    }
                }
                // pool: multisig holds exactly the deposits not yet returned
                let outstanding: u128 = w.props.iter().filter(|m| m.deposit_taken && m.deposit_returned == 0).count() as u128 * d;
                let held = *dep_post.get(&ms).unwrap_or(&0);
                if !h.check(held as i128 == outstanding as i128 - w.dep_spent as i128, "C15/pool/multisig-holdings-differ-from-outstanding-deposits", || {
                    format!("multisig holds {held}, deposits not yet returned sum to {outstanding}, its own proposals spent {}", w.dep_spent)
                }) {
                    return false;
                }
                // every proposal that exists was created by a Propose call whose payment the ledger above has seen
                let last: Res<cw3::ProposalListResponse> = w.c.query(&w.ms, &cw3_fixed_multisig::msg::QueryMsg::ReverseProposals { start_before: None, limit: Some(1) });
                if let Res::Ok(l) = last {
                    let newest = l.proposals.first().map(|p| p.id).unwrap_or(0);
                    h.out.oracle_checks += 1;
                    if !h.check(newest == w.props.len() as u64, "C15/propose/proposal-exists-that-nobody-paid-a-deposit-for", || {
                        format!("newest proposal on the multisig is {newest} ({:?}), but only {} Propose calls succeeded and paid", l.proposals.first().map(|p| (&p.proposer, &p.deposit)), w.props.len())
                    }) {
                        return false;
                    }
                }
                // cw20 deposit: allowance or balance below D => Propose fails (checked through the ledger above);
                if let (Op::Propose { .. }, DepTok::Cw20(t), true) = (op, &dep.token, ok) {
                    let _ = t;
                    h.out.count("cw20_deposits_pulled");
                }
            }
        }
        *pre = post;
        true
    }

    /// C15: at the end, every failed proposal's deposit must be recoverable when refunds are enabled
    fn recover(&self, h: &mut Hist, w: &mut World, pre: &mut Vec<Obs>) -> bool {
        let Some(dep) = w.dep.clone() else {
            return true;
        };
        w.c.advance(2_000_000, 20_000_000);
        let Some(obs) = w.observe_all(h, self.prop) else {
            return false;
        };
        *pre = obs.clone();
        for i in 0..w.props.len() {
            let (id, executed, returned, rejected_early) = {
                let m = &w.props[i];
                (m.id, m.executed, m.deposit_returned, m.rejected_before_expiry)
            };
            let o = &obs[i];
            if !executed && dep.refund_failed && returned == 0 && o.status == Status::Open && w.props[i].deposit_taken {
                // 20 million seconds / 2 million blocks after creation, far beyond any maximum voting period, the
                // proposal still has not expired: it can never fail, so its deposit can never be recovered
                h.violate("C15/recover/proposal-never-expires-deposit-locked", format!("proposal {id} is still Open (expires {:?}) long after the maximum voting period {:?}", o.expires, w.period));
                return false;
            }
            if executed || o.status != Status::Rejected || !dep.refund_failed || returned > 0 {
                continue;
            }
            h.out.count("recoverability_probes");
            let stranger = w.stranger.clone();
            let created_expired = matches!(w.props[i].seen.first(), Some(Status::Rejected));
            let ok = self.step(h, w, pre, &stranger, &Op::Close { id });
            if !ok {
                return false;
            }
            if w.props[i].deposit_returned == 0 && w.dep_balance(w.ms.as_str()) < dep.amount {
                // the multisig itself voted the deposit pool away: nothing left to return, not the contract's doing
                h.out.count("recoverability_not_judged_pool_spent_by_proposals");
                continue;
            }
            if w.props[i].deposit_returned == 0 {
                let sig = if rejected_early || created_expired {
                    "C15/close-refused/stored-rejected-without-close/refund_failed=true"
                } else {
                    "C15/close-refused/expired-proposal-deposit-unrecoverable"
                };
                let detail = format!(
                    "proposal {id} failed (status history {:?}), refunds for failed proposals are enabled, but Close by a stranger after expiry did not return the deposit",
                    w.props[i].seen
                );
                if rejected_early || created_expired {
                    h.violate_continue(sig, detail);
                    continue;
                }
                h.violate(sig, detail);
                return false;
            }
            h.out.count("failed_proposal_deposits_recovered");
        }
        true
    }
}

enum Act {
    Do(usize, Op),
    /// by group admin
    Group(Vec<(usize, u64)>, Vec<usize>),
    /// by group admin: the multisig itself joins its group with this weight
    GroupSelf(u64),
    Adv(u64),
    Sink(bool),
    ByStranger(Op),
}

impl Ms {
    fn play(&self, h: &mut Hist, over: Override, script: Vec<Act>) {
        let pl = pool();
        let Some(mut w) = self.setup(h, Some(over)) else {
            h.out.inconclusive = Some("directed scenario could not be set up".into());
            return;
        };
        let mut pre: Vec<Obs> = vec![];
        for a in script {
            let (sender, op) = match a {
                Act::Do(i, op) => (pl.actors[i].clone(), op),
                Act::ByStranger(op) => (w.stranger.clone(), op),
                Act::Group(add, rem) => (
                    w.gadmin.clone(),
                    Op::GroupUpdate { add: add.into_iter().map(|(i, x)| (pl.actors[i].clone(), x)).collect(), remove: rem.into_iter().map(|i| pl.actors[i].clone()).collect() },
                ),
                Act::GroupSelf(x) => (w.gadmin.clone(), Op::GroupUpdate { add: vec![(w.ms.to_string(), x)], remove: vec![] }),
                Act::Adv(n) => {
                    w.c.advance(n, n * 5);
                    (w.c.owner.to_string(), Op::SinkFail(w.sink_failing))
                }
                Act::Sink(on) => (w.c.owner.to_string(), Op::SinkFail(on)),
            };
            if !self.step(h, &mut w, &mut pre, &sender, &op) {
                return;
            }
        }
        h.out.count("directed_scenarios_completed");
    }

    fn directed(&self, h: &mut Hist) -> bool {
        let ping = |p: u64, m: u64, hist: u64| PMsg::Ping { id: format!("h{hist}-p{p}-m{m}") };
        let prop_op = |msgs: Vec<PMsg>| Op::Propose { msgs, latest: None, funds: Funds::None };
        let vote = |id: u64, v: Vote| Op::Vote { id, vote: v };
        let hist = h.idx;
        match (self.prop, h.idx) {
            // group changes after / in the same block as creation (flex)
            ("C06", 0) | ("C06", 1) => {
                let rule = if h.idx == 0 { Rule::Pct(510_000_000_000_000_000) } else { Rule::Quorum(500_000_000_000_000_000, 400_000_000_000_000_000) };
                let over = Override { kind: Kind::Flex, voters: vec![(pool().actors[0].clone(), 3), (pool().actors[1].clone(), 5), (pool().actors[2].clone(), 2), (pool().actors[3].clone(), 0)], rule, period: Duration::Height(30), executor: None, deposit: false, dep_cw20: None };
                self.play(
                    h,
                    over,
                    vec![
                        Act::Adv(1),
                        Act::Do(0, prop_op(vec![ping(1, 0, hist)])),
                        Act::Adv(1),
                        // remove B, add E:7, re-weight C 2 -> 9
                        Act::Group(vec![(4, 7), (2, 9)], vec![1]),
                        Act::Do(1, vote(1, Vote::No)),      // removed after creation: votes with snapshot weight 5
                        Act::Do(4, vote(1, Vote::Yes)),     // added after creation: refused
                        Act::Do(2, vote(1, Vote::Yes)),     // snapshot weight 2, not 9
                        Act::Do(3, vote(1, Vote::Yes)),     // zero weight: refused
                        Act::Do(2, vote(1, Vote::No)),      // second vote: refused
                        // same block as the group change above: propose again (known-finding zone)
                        Act::Do(2, prop_op(vec![ping(2, 0, hist)])),
                        Act::Do(4, vote(2, Vote::Yes)),
                        Act::Adv(1),
                        Act::Do(4, prop_op(vec![])),
                        Act::Group(vec![(4, 1)], vec![0]),  // same block, after creation
                        Act::Do(0, vote(3, Vote::Abstain)),
                        Act::Do(4, vote(3, Vote::Veto)),
                        Act::Adv(40),
                        Act::Do(1, vote(1, Vote::Yes)),     // after expiry
                        Act::ByStranger(Op::Close { id: 1 }),
                        Act::ByStranger(Op::Execute { id: 2 }),
                    ],
                );
                true
            }
            // re-entrancy, failed dispatch + retry, repeated execute
            ("C05", 0) | ("C05", 1) => {
                let kind = if h.idx == 0 { Kind::Fixed } else { Kind::Flex };
                let over = Override { kind, voters: vec![(pool().actors[0].clone(), 3), (pool().actors[1].clone(), 2)], rule: Rule::Count(3), period: Duration::Height(20), executor: None, deposit: false, dep_cw20: None };
                self.play(
                    h,
                    over,
                    vec![
                        Act::Adv(1),
                        Act::Do(0, prop_op(vec![ping(1, 0, hist), PMsg::SelfExecute(2), ping(1, 2, hist)])), // passes at once (weight 3)
                        Act::Do(0, prop_op(vec![ping(2, 0, hist), PMsg::Bank { rcpt: mk_addr(&format!("rcpt-d-{hist}")), amount: 77 }])),
                        Act::Do(0, prop_op(vec![ping(3, 0, hist), PMsg::SelfExecute(3)])), // executes itself: always fails
                        // the same message twice in a row is two messages
                        Act::Do(0, prop_op(vec![ping(4, 0, hist), ping(4, 0, hist), ping(4, 2, hist), ping(4, 0, hist)])),
                        Act::Sink(true),
                        Act::ByStranger(Op::Execute { id: 4 }), // dispatch fails, stays Passed
                        Act::ByStranger(Op::Execute { id: 1 }),
                        Act::Sink(false),
                        Act::ByStranger(Op::Execute { id: 3 }), // re-enters itself: fails
                        Act::ByStranger(Op::Execute { id: 1 }), // executes 1 and, nested, 2
                        Act::ByStranger(Op::Execute { id: 2 }), // already executed
                        Act::ByStranger(Op::Execute { id: 1 }),
                        Act::ByStranger(Op::Execute { id: 4 }), // retry succeeds
                        Act::ByStranger(Op::Close { id: 4 }),
                        Act::Adv(30),
                        Act::ByStranger(Op::Close { id: 3 }),   // passed: cannot be closed
                        Act::ByStranger(Op::Execute { id: 3 }),
                    ],
                );
                true
            }
            // cw20 deposit, the multisig is a member of its own group and one of its proposals proposes again:
            // the nested proposal can only exist if its deposit was pulled (it cannot be: no self-allowance)
            ("C15", 0) | ("C15", 1) => {
                let over = Override { kind: Kind::Flex, voters: vec![(pool().actors[0].clone(), 3), (pool().actors[1].clone(), 2)], rule: Rule::Count(3), period: Duration::Height(20), executor: None, deposit: true, dep_cw20: Some(true) };
                self.play(
                    h,
                    over,
                    vec![
                        Act::Adv(1),
                        Act::GroupSelf(h.idx),
                        Act::Adv(1),
                        Act::Do(0, prop_op(vec![ping(1, 0, hist), PMsg::SelfPropose])), // passes at once
                        Act::Do(0, prop_op(vec![ping(2, 0, hist)])),
                        Act::ByStranger(Op::Execute { id: 1 }),
                        Act::ByStranger(Op::Execute { id: 2 }),
                        Act::Do(1, prop_op(vec![PMsg::SelfPropose, PMsg::SelfPropose])),
                        Act::Do(0, vote(3, Vote::Yes)),
                        Act::ByStranger(Op::Execute { id: 3 }),
                        Act::Adv(30),
                        Act::ByStranger(Op::Close { id: 1 }),
                        Act::ByStranger(Op::Execute { id: 1 }),
                    ],
                );
                true
            }
            // the group shrinks and, in the same block, a proposal is opened: its total is the small new one while
            // the old heavy weights may still vote. Voted down, it must stay down whatever is cast afterwards
            ("C05", 4) | ("C05", 5) => {
                let rule = if h.idx == 4 { Rule::Pct(510_000_000_000_000_000) } else { Rule::Quorum(500_000_000_000_000_000, 400_000_000_000_000_000) };
                let over = Override { kind: Kind::Flex, voters: vec![(pool().actors[0].clone(), 5), (pool().actors[1].clone(), 5), (pool().actors[2].clone(), 1)], rule, period: Duration::Height(20), executor: None, deposit: false, dep_cw20: None };
                self.play(
                    h,
                    over,
                    vec![
                        Act::Adv(1),
                        Act::Group(vec![(0, 1), (1, 1)], vec![]),
                        Act::Do(2, prop_op(vec![ping(1, 0, hist)])), // total 3, yes 1
                        Act::Adv(1),
                        Act::Do(0, vote(1, Vote::No)),  // weight 5 from the snapshot: voted down
                        Act::Do(1, vote(1, Vote::Yes)), // weight 5: too late
                        Act::ByStranger(Op::Execute { id: 1 }),
                        Act::Adv(25),
                        Act::ByStranger(Op::Execute { id: 1 }),
                        Act::ByStranger(Op::Close { id: 1 }),
                    ],
                );
                true
            }
            // an executor is configured and a passed proposal tries to execute another one: the nested call comes
            // from the multisig, which is neither a member nor the named executor
            ("C05", 6) | ("C05", 7) => {
                let executor = if h.idx == 6 { ExecCfg::Member } else { ExecCfg::Only(pool().actors[0].clone()) };
                let over = Override { kind: Kind::Flex, voters: vec![(pool().actors[0].clone(), 3), (pool().actors[1].clone(), 2)], rule: Rule::Count(3), period: Duration::Height(20), executor: Some(executor), deposit: false, dep_cw20: None };
                self.play(
                    h,
                    over,
                    vec![
                        Act::Adv(1),
                        Act::Do(0, prop_op(vec![ping(1, 0, hist)])),
                        Act::Do(0, prop_op(vec![ping(2, 0, hist), PMsg::SelfExecute(1)])),
                        Act::ByStranger(Op::Execute { id: 2 }), // not authorised
                        Act::Do(0, Op::Execute { id: 2 }),       // authorised, but the nested call is not
                        Act::Do(0, Op::Execute { id: 1 }),
                        Act::Do(0, Op::Execute { id: 2 }),       // nested Execute of an executed proposal: fails
                    ],
                );
                true
            }
            // executor = Member: membership changes in the SAME block as Execute
            ("C05", 2) | ("C05", 3) => {
                let over = Override { kind: Kind::Flex, voters: vec![(pool().actors[0].clone(), 3), (pool().actors[1].clone(), 2), (pool().actors[2].clone(), 1)], rule: Rule::Count(3), period: if h.idx == 2 { Duration::Height(20) } else { Duration::Time(600) }, executor: Some(ExecCfg::Member), deposit: false, dep_cw20: None };
                self.play(
                    h,
                    over,
                    vec![
                        Act::Adv(1),
                        Act::Do(0, prop_op(vec![ping(1, 0, hist)])),
                        Act::Do(0, prop_op(vec![ping(2, 0, hist)])),
                        Act::Do(0, prop_op(vec![ping(3, 0, hist)])),
                        Act::Adv(1),
                        Act::Group(vec![], vec![1]),                 // B removed ...
                        Act::Do(1, Op::Execute { id: 1 }),           // ... and tries to execute in the same block
                        Act::Group(vec![(4, 0)], vec![]),            // E joins with weight 0 ...
                        Act::Do(4, Op::Execute { id: 1 }),           // ... and may execute at once
                        Act::ByStranger(Op::Execute { id: 2 }),
                        Act::Group(vec![], vec![2]),
                        Act::Do(2, Op::Execute { id: 2 }),
                        Act::Adv(1),
                        Act::Do(1, Op::Execute { id: 2 }),
                        Act::Do(0, Op::Execute { id: 2 }),
                        Act::Do(0, Op::Execute { id: 2 }),
                    ],
                );
                true
            }
            // zero-weight proposer and everybody abstains; pass only at expiry
            ("C03", 0) | ("C03", 1) | ("C03", 2) => {
                let rule = match h.idx {
                    0 => Rule::Pct(510_000_000_000_000_000),
                    1 => Rule::Quorum(500_000_000_000_000_000, 10_000_000_000_000_000),
                    _ => Rule::Quorum(600_000_000_000_000_000, 400_000_000_000_000_000),
                };
                let kind = if h.idx == 1 { Kind::Flex } else { Kind::Fixed };
                let over = Override { kind, voters: vec![(pool().actors[0].clone(), 0), (pool().actors[1].clone(), 4), (pool().actors[2].clone(), 3), (pool().actors[3].clone(), 3)], rule, period: Duration::Height(10), executor: None, deposit: false, dep_cw20: None };
                self.play(
                    h,
                    over,
                    vec![
                        Act::Adv(1),
                        Act::Do(0, prop_op(vec![ping(1, 0, hist)])), // zero-weight proposer
                        Act::Do(1, vote(1, Vote::Abstain)),
                        Act::Do(2, vote(1, Vote::Abstain)),
                        Act::Do(3, vote(1, Vote::Abstain)),
                        Act::ByStranger(Op::Execute { id: 1 }),
                        Act::Do(1, prop_op(vec![ping(2, 0, hist)])), // yes 4 of 10
                        Act::Do(2, vote(2, Vote::No)),
                        Act::Do(0, prop_op(vec![])),
                        Act::Do(1, vote(3, Vote::Yes)),
                        Act::Do(2, vote(3, Vote::Veto)),
                        Act::Adv(9),
                        Act::ByStranger(Op::Execute { id: 2 }),
                        Act::Adv(1),
                        Act::ByStranger(Op::Execute { id: 1 }),
                        Act::ByStranger(Op::Execute { id: 2 }),
                        Act::ByStranger(Op::Close { id: 1 }),
                        Act::ByStranger(Op::Close { id: 2 }),
                        Act::ByStranger(Op::Close { id: 3 }),
                        Act::ByStranger(Op::Execute { id: 3 }),
                    ],
                );
                true
            }
            // the group behind a count threshold loses all its weight; a remaining (weightless) member proposes
            ("C03", 6) | ("C03", 7) => {
                let rule = if h.idx == 6 { Rule::Count(2) } else { Rule::Count(1) };
                let over = Override { kind: Kind::Flex, voters: vec![(pool().actors[0].clone(), 2), (pool().actors[1].clone(), 1), (pool().actors[2].clone(), 0)], rule, period: Duration::Height(10), executor: None, deposit: false, dep_cw20: None };
                self.play(
                    h,
                    over,
                    vec![
                        Act::Adv(1),
                        Act::Do(0, prop_op(vec![ping(1, 0, hist)])),
                        Act::Adv(1),
                        Act::Group(vec![(0, 0), (1, 0)], vec![]),
                        Act::Adv(1),
                        Act::Do(2, prop_op(vec![ping(2, 0, hist)])),
                        Act::ByStranger(Op::Execute { id: 2 }),
                        Act::Group(vec![], vec![0, 1]),
                        Act::Adv(1),
                        Act::Do(2, prop_op(vec![ping(3, 0, hist)])),
                        Act::ByStranger(Op::Execute { id: 3 }),
                        Act::ByStranger(Op::Execute { id: 2 }),
                    ],
                );
                true
            }
            // token-sized weights with an 18-decimal threshold: two votes short of 2/3 of 3e9
            ("C03", 3) | ("C03", 4) | ("C03", 5) => {
                let rule = match h.idx {
                    3 => Rule::Pct(666_666_666_666_666_666),
                    4 => Rule::Quorum(666_666_666_666_666_666, 333_333_333_333_333_333),
                    _ => Rule::Quorum(555_555_555_555_555_555, 666_666_666_666_666_666),
                };
                let kind = if h.idx == 3 { Kind::Fixed } else { Kind::Flex };
                let over = Override { kind, voters: vec![(pool().actors[0].clone(), 1_000_000_000), (pool().actors[1].clone(), 999_999_998), (pool().actors[2].clone(), 1_000_000_002)], rule, period: Duration::Height(10), executor: None, deposit: false, dep_cw20: None };
                self.play(
                    h,
                    over,
                    vec![
                        Act::Adv(1),
                        Act::Do(0, prop_op(vec![ping(1, 0, hist)])),
                        Act::Do(1, vote(1, Vote::Yes)), // 1_999_999_998 of 3e9: two short of 2/3
                        Act::ByStranger(Op::Execute { id: 1 }),
                        Act::Do(0, prop_op(vec![ping(2, 0, hist)])),
                        Act::Do(1, vote(2, Vote::Yes)),
                        Act::Do(2, vote(2, Vote::Abstain)),
                        Act::ByStranger(Op::Execute { id: 2 }),
                        Act::Do(1, prop_op(vec![ping(3, 0, hist)])), // 999_999_998 yes
                        Act::Do(0, vote(3, Vote::No)),
                        Act::Adv(10),
                        Act::ByStranger(Op::Execute { id: 1 }),
                        Act::ByStranger(Op::Execute { id: 3 }),
                        Act::ByStranger(Op::Close { id: 1 }),
                        Act::ByStranger(Op::Close { id: 3 }),
                    ],
                );
                true
            }
            _ => false,
        }
    }
}

impl Monitor for Ms {
    fn id(&self) -> &'static str {
        self.prop
    }
    fn engine(&self) -> &'static str {
        "cwv-app"
    }
    fn histories(&self, tier: Tier) -> u64 {
        match self.prop {
            "C03" => tier.pick(800, 48_000),
            "C05" => tier.pick(600, 24_000),
            _ => tier.pick(700, 36_000),
        }
    }
    fn mandatory(&self) -> Vec<&'static str> {
        match self.prop {
            "C03" => vec!["directed_scenarios_completed", "observations_with_18_decimal_thresholds", "list_queries_compared_with_point_queries", "histories_fixed", "histories_flex", "observed_open", "observed_passed", "observed_rejected", "executes_ok", "closes_ok", "passed_only_at_expiry_or_after", "tallies_all_abstain_or_no_yes"],
            "C05" => vec![
                "flex_worlds_with_an_unusable_executor_address",
                "directed_scenarios_completed",
                "reentrant_execute_calls_ok",
                "histories_fixed",
                "histories_flex",
                "executes_ok",
                "closes_ok",
                "repeated_execute_rejected",
                "failed_dispatch_of_passed_proposal",
                "sink_deliveries_checked",
                "bank_deliveries_checked",
                "unauthorised_execute_rejected",
                "proposals_with_clamped_expiry",
                "status_moves_Open_to_Passed",
                "status_moves_Passed_to_Executed",
                "status_moves_Open_to_Rejected",
            ],
            "C06" => vec![
                "flex_worlds_with_more_than_ten_group_members",
                "fixed_worlds_with_more_than_ten_voters",
                "flex_worlds_where_the_multisig_listens_to_its_group",
                "flex_worlds_governing_their_own_group",
                "group_updates_by_the_multisig_itself",
                "point_queries_compared_with_listings",
                "directed_scenarios_completed",
                "histories_fixed",
                "histories_flex",
                "votes_ok",
                "second_votes_rejected",
                "votes_after_expiry_rejected",
                "zero_weight_votes_rejected",
                "group_updates_ok",
                "votes_where_current_weight_differs_from_snapshot",
                "votes_by_members_removed_after_creation",
                "votes_by_members_added_after_creation_rejected",
                "proposals_created_in_a_block_with_an_earlier_group_change",
            ],
            _ => vec![
                "directed_scenarios_completed",
                "deposits_taken",
                "deposits_returned_on_execute",
                "deposits_returned_on_close",
                "closes_without_refund_configured",
                "cw20_deposits_pulled",
                "propose_with_Short_funds_rejected",
                "propose_with_Excess_funds_rejected",
                "propose_with_None_funds_rejected",
                "propose_with_OtherDenom_funds_rejected",
                "propose_with_TwoCoins_funds_rejected",
                "propose_with_CaseVariant_funds_rejected",
                "recoverability_probes",
            ],
        }
    }
    fn rule(&self) -> &'static str {
        match self.prop {
            "C03" => "seeded random histories on cw3-fixed-multisig and cw3-flex-multisig(+cw4-group) inside a cw-multi-test App: voter sets of 1-6 with weights incl. 0 and 2^61, all three threshold kinds on a grid of 9- and 18-decimal fractions (the latter judged with a one-vote tolerance), six directed scenarios incl. token-sized weights two votes short of 2/3, propose/vote(yes,no,abstain,veto)/execute/close by members and outsiders, block/time advances onto expiry-1/0/+1. After every step every proposal's status, threshold(+total) and paged ballots are read back and the status is compared with the exact reference rules (pass_final when expired, pass-for-every-completion before); ListProposals and ReverseProposals are paged to the end and every entry compared with the point query. distinct = (multisig kind, operation, outcome, target status before, target expired?, rule kind)",
            "C05" => "same world as C03 with 3-5 concurrent proposals whose messages carry unique ids (sink pings, bank sends to fresh recipients) or call back into the multisig (Execute same/other id, Close, Vote), sink failure toggled between attempts, all executor settings incl. an `Only` address that is no valid address. After every step the committed sink log and recipient balances are compared with the proposals that became Executed in that step; lifecycle moves, ids, content and expiry clamp are checked at every observation. distinct = (multisig kind, operation, outcome, target status before, target expired?, rule kind)",
            "C06" => "same world as C03; fixed: voter lists with repeated addresses and zero weights; flex: group updates (add/remove/re-weight) by the group admin and strangers placed before, in the same block as, and after Propose and each Vote; a fifth of the benign flex worlds have 8-30 further members (more than one listing page). The monitor keeps its own per-block shadow of the group and compares every listed ballot and total_weight with the snapshot at the start of the proposal's block; the Vote and Voter point queries and ListVoters must agree with the ballot listing / the membership after every step. distinct = (multisig kind, operation, outcome, target status before, target expired?, rule kind)",
            _ => "cw3-flex-multisig with native or cw20 proposal deposits, refund_failed_proposals on/off: propose with right/missing/short/excess/other-denom/two-coin funds or varying cw20 allowance, vote, execute, close over up to 5 concurrent proposals, some of which pay the deposit token out of the multisig account; deposit-token balances of all actors and the multisig are compared before/after every call with a per-proposal ledger; at the end time jumps past every expiry and Close by a stranger must recover each failed proposal's deposit when refunds are enabled. distinct = (multisig kind, operation, outcome, target status before, target expired?, rule kind)",
        }
    }
    fn assumptions(&self) -> Vec<&'static str> {
        vec![
            "cw-multi-test 2.0 dispatch/rollback semantics stand in for wasmd",
            "thresholds with 10-18 decimals are judged with the one-vote tolerance of C04 (Passed needs the exact requirement minus at most one vote; never stricter than exact)",
            "a proposal whose ballots outweigh its reported total is not judged by C03 (that is a C06 violation)",
        ]
    }
    fn run_history(&self, h: &mut Hist) {
        if self.directed(h) {
            return;
        }
        let Some(mut w) = self.setup(h, None) else {
            return;
        };
        let mut pre: Vec<Obs> = vec![];
        let n = h.tier.pick(50, 80);
        for _ in 0..n {
            // time: same block most of the time for C06, otherwise mixed; jump onto expiry boundaries
            let r = h.rng.below(10);
            let stay = match self.prop {
                "C06" => r < 5,
                _ => r < 3,
            };
            if !stay {
                let live: Vec<Exp> = pre.iter().map(|o| o.expires).filter(|e| !w.expired(e)).collect();
                if !live.is_empty() && h.rng.chance(1, 3) {
                    match *h.rng.pick(&live) {
                        Exp::H(x) => {
                            let target = match h.rng.below(3) {
                                0 => x.saturating_sub(1),
                                1 => x,
                                _ => x + 1,
                            };
                            let cur = w.c.height();
                            if target > cur && target - cur < 100 {
                                w.c.advance(target - cur, (target - cur) * 5);
                            } else {
                                w.c.advance(1, 5);
                            }
                        }
                        Exp::T(x) => {
                            let target = match h.rng.below(3) {
                                0 => x.saturating_sub(1),
                                1 => x,
                                _ => x + 1,
                            };
                            if target > w.c.time_ns() {
                                w.c.set_time_ns(target, 1);
                            } else {
                                w.c.advance(1, 5);
                            }
                        }
                        Exp::Never => w.c.advance(1, 5),
                    }
                } else {
                    w.c.advance(1, h.rng.range(1, 7));
                }
                // statuses may change by time alone: observe (lifecycle bookkeeping happens in step)
                if !pre.is_empty() {
                    let owner = w.c.owner.to_string();
                    let failing = w.sink_failing;
                    if !self.step(h, &mut w, &mut pre, &owner, &Op::SinkFail(failing)) {
                        return;
                    }
                }
            }
            let (sender, op) = self.gen_op(h, &w, &pre);
            if !self.step(h, &mut w, &mut pre, &sender, &op) {
                return;
            }
        }
        if self.prop == "C15" {
            let _ = self.recover(h, &mut w, &mut pre);
        }
    }
}

//! C16 — cw1: CanExecute predicts Execute (differential between the two entry points).

use crate::core::{Hist, Monitor, Tier};
use crate::cw1w::*;
use crate::cw20w::pool;
use crate::direct::Res;

pub struct C16;

impl C16 {
    /// probe the current state with many (sender, message) pairs
    fn probe(&self, h: &mut Hist, p: &mut Proxy, s: &Snap, probes: usize) -> bool {
        let pl = pool();
        let height = p.w.block.height;
        let now = p.w.block.time.nanos();
        for _ in 0..probes {
            let own = p.w.contract.to_string();
            let self_admin = s.admins.iter().any(|a| *a == own);
            let sender = if h.rng.chance(1, if self_admin { 5 } else { 30 }) {
                if self_admin {
                    h.out.count("probes_sent_by_a_proxy_that_is_its_own_admin");
                }
                own
            } else {
                h.rng.pick_cloned(&pl.actors)
            };
            let anchors = s.raw.get(&sender).map(|a| a.map()).unwrap_or_default();
            let mut msg = gen_msg(&mut h.rng, &anchors, now);
            if h.rng.chance(1, 8) {
                // funds sent back to the proxy's own address
                if let cosmwasm_std::CosmosMsg::Bank(cosmwasm_std::BankMsg::Send { to_address, .. }) = &mut msg {
                    *to_address = p.w.contract.to_string();
                    h.out.count("probes_sending_to_the_proxy_itself");
                }
            }
            {
                // now and then the recipient of a bank send is no well-formed address (the bank's business, not the proxy's)
                let mut side = h.rng.clone();
                side.below(4242);
                if side.chance(1, 10) {
                    if let cosmwasm_std::CosmosMsg::Bank(cosmwasm_std::BankMsg::Send { to_address, .. }) = &mut msg {
                        *to_address = ["recipient", "", "COSMWASM1QQQQ", "cosmwasm1notchecksummed"][side.below_usize(4)].to_string();
                        h.out.count("probes_sending_to_a_malformed_recipient");
                    }
                }
            }
            if h.rng.chance(1, 10) {
                // a call the proxy is asked to make to ITSELF (administration or a nested relay)
                let body: &[u8] = match h.rng.below(6) {
                    0 => b"{\"execute\":{\"msgs\":[]}}",
                    1 => b"{\"execute\":{\"msgs\":[{\"bank\":{\"send\":{\"to_address\":\"x\",\"amount\":[]}}}]}}",
                    2 => b"{\"freeze\":{}}",
                    3 => b"{\"update_admins\":{\"admins\":[]}}",
                    4 => b"{}",
                    _ => b"{\"increase_allowance\":{\"spender\":\"x\",\"amount\":{\"denom\":\"uatom\",\"amount\":\"1\"}}}",
                };
                msg = cosmwasm_std::WasmMsg::Execute { contract_addr: p.w.contract.to_string(), msg: cosmwasm_std::Binary::from(body.to_vec()), funds: vec![] }.into();
                h.out.count("probes_calling_the_proxy_itself");
            }
            let q = p.can_execute(&sender, &msg);
            h.out.evaluations += 1;
            let q = match q {
                Res::Ok(b) => b,
                other => {
                    // a valid sender must get an answer
                    h.violate(
                        &format!("C16/{:?}/query-failed-for-valid-sender", p.kind),
                        format!("CanExecute({sender}, {msg:?}) => {}", other.err_text()),
                    );
                    return false;
                }
            };
            // Execute on a copy of the same state: the driver rolls back on failure, and on
            // success we restore the saved copy ourselves
            let saved = p.w.store.clone();
            let e = p.exec(&sender, &Op::Execute { msgs: vec![msg.clone()] });
            p.w.store = saved;
            if let Res::Abort(_) = &e {
                h.out.abort(&crate::direct::last_panic_site());
            }
            let is_admin = s.admins.iter().any(|a| *a == sender);
            let class = if is_admin { 0 } else if s.raw.contains_key(&sender) || s.perms.contains_key(&sender) { 1 } else { 2 };
            let exp_state = match s.raw.get(&sender) {
                None => 0,
                Some(a) if a.exp.expired(height, now) => 1,
                Some(a) if a.nonzero().is_empty() => 2,
                Some(_) => 3,
            };
            h.out.distinct(&(p.kind, class, msg_kind(&msg), q, e.is_ok(), exp_state, s.perms.get(&sender).copied()));
            h.out.count(if q { "can_execute_true" } else { "can_execute_false" });
            if class == 1 {
                h.out.count(if q { "subkey_true" } else { "subkey_false" });
                if exp_state == 1 && msg_kind(&msg) == "bank_send" {
                    h.out.count("probes_on_expired_allowance");
                }
                if exp_state == 2 && msg_kind(&msg) == "bank_send" {
                    h.out.count("probes_on_empty_allowance");
                }
            }
            if let cosmwasm_std::CosmosMsg::Bank(cosmwasm_std::BankMsg::Send { amount, .. }) = &msg {
                let m = s.raw.get(&sender).map(|a| a.map()).unwrap_or_default();
                for c in amount {
                    let have = *m.get(&c.denom).unwrap_or(&0);
                    if c.amount.u128() == have && have > 0 {
                        h.out.count("probes_exactly_at_allowance");
                    }
                    if c.amount.u128() == have.wrapping_add(1) {
                        h.out.count("probes_one_over_allowance");
                    }
                    if c.amount.is_zero() {
                        h.out.count("probes_with_zero_coin");
                    }
                }
                if amount.is_empty() {
                    h.out.count("probes_with_empty_coin_list");
                }
            }
            if !h.check(q == e.is_ok(), &format!("C16/{:?}/{}/query-and-execute-disagree", p.kind, msg_kind(&msg)), || {
                format!(
                    "CanExecute({sender}, {msg:?}) = {q} but Execute => {} {} (state: admins={:?} allowance={:?} perms={:?} h={height} t={now})",
                    e.class(), e.err_text(), s.admins, s.raw.get(&sender), s.perms.get(&sender)
                )
            }) {
                return false;
            }
        }
        true
    }
}

impl Monitor for C16 {
    fn id(&self) -> &'static str {
        "C16"
    }
    fn engine(&self) -> &'static str {
        "cwv-direct"
    }
    fn histories(&self, tier: Tier) -> u64 {
        tier.pick(1_000, 60_000)
    }
    fn mandatory(&self) -> Vec<&'static str> {
        vec![
            "probes_calling_the_proxy_itself",
            "probes_sending_to_a_malformed_recipient",
            "probes_sent_by_a_proxy_that_is_its_own_admin",
            "states_probed_at_the_end_of_height_or_time",
            "can_execute_true",
            "can_execute_false",
            "subkey_true",
            "subkey_false",
            "probes_on_expired_allowance",
            "probes_on_empty_allowance",
            "probes_exactly_at_allowance",
            "probes_one_over_allowance",
            "probes_with_zero_coin",
            "probes_with_empty_coin_list",
            "probes_sending_to_the_proxy_itself",
        ]
    }
    fn rule(&self) -> &'static str {
        "states reached by seeded random admin/allowance/permission/spend histories on both proxies, a quarter of which list themselves among their admins (with block advances onto expiry boundaries); in each of ~40 states per history ~25 (sender, message) probes (every CosmosMsg kind; a tenth are calls addressed to the proxy itself: nested execute, freeze, update_admins, garbage; bank sends to the proxy itself): CanExecute is queried, then Execute{[msg]} by the same sender runs on a copy of the same storage, and the two answers must agree. distinct = (proxy kind, sender class, message kind, query answer, execute outcome, allowance missing/expired/empty/live, permission flags)"
    }
    fn assumptions(&self) -> Vec<&'static str> {
        vec!["senders are valid addresses (the property's domain)", "Execute on a storage copy equals Execute 'before any other state change'"]
    }
    fn run_history(&self, h: &mut Hist) {
        let kind = if h.idx % 4 == 0 { Kind::Whitelist } else { Kind::Subkeys };
        let mut p = Proxy::new(&mut h.rng, kind);
        let (mut admins, mutable) = gen_admins(&mut h.rng);
        if matches!(h.idx % 8, 4 | 6) {
            // a proxy that lists itself among its admins (its address is known before instantiation)
            admins.push(p.w.contract.to_string());
        }
        let r = p.instantiate(admins.clone(), mutable);
        h.note(format!("{kind:?} instantiate admins={admins:?} mutable={mutable} => {}", r.class()));
        if !r.is_ok() {
            return;
        }
        let mut pre = p.snap();
        let steps = h.tier.pick(40, 60);
        let probes = h.tier.pick(25, 40);
        for _ in 0..steps {
            if h.rng.chance(1, 4) {
                let s = pre.clone();
                gen_advance(&mut h.rng, &mut p, &s);
                pre = p.snap();
            }
            let (sender, op) = gen_op(&mut h.rng, &p, &pre);
            let r = p.exec(&sender, &op);
            log_op(h, &p, &sender, &op, &r);
            pre = p.snap();
            h.out.state(&(pre.admins.len(), pre.raw.len(), pre.perms.len(), pre.raw.values().filter(|a| a.nonzero().is_empty()).count()));
            if !self.probe(h, &mut p, &pre, probes) {
                return;
            }
        }
        if h.idx % 5 == 3 {
            // the same state seen from the last block height and from the last representable time
            let saved = p.w.block.clone();
            for (hh, tt) in [(u64::MAX, saved.time.nanos()), (saved.height, u64::MAX), (u64::MAX, u64::MAX)] {
                p.w.block.height = hh;
                p.w.block.time = cosmwasm_std::Timestamp::from_nanos(tt);
                let s = p.snap();
                h.out.count("states_probed_at_the_end_of_height_or_time");
                if !self.probe(h, &mut p, &s, probes) {
                    return;
                }
            }
            p.w.block = saved;
        }
    }
}

//! C09 — cw4: total and point-in-time member weights always match the true history.
//! Direct pass: cw4-group. App pass (cw4-stake) lives in `stake_pass` once the AppDriver exists.

use crate::core::{Hist, Monitor, Tier};
use crate::cw20w::pool;
use crate::cw4w::*;
use crate::direct::Res;
use std::collections::{BTreeMap, BTreeSet};

pub struct C09;

pub struct Model {
    pub members: BTreeMap<String, Timeline<Option<u64>>>,
    pub total: Timeline<u64>,
    pub change_heights: BTreeSet<u64>,
    pub h0: u64,
}

impl Model {
    pub fn new(h0: u64) -> Model {
        Model { members: BTreeMap::new(), total: Timeline::default(), change_heights: BTreeSet::new(), h0 }
    }
    pub fn set_member(&mut self, block: u64, a: &str, w: Option<u64>) {
        self.members.entry(a.to_string()).or_default().set(block, w);
        self.change_heights.insert(block);
    }
    pub fn member_at(&self, a: &str, h: u64) -> Option<u64> {
        self.members.get(a).and_then(|t| t.at_start(h).cloned()).flatten()
    }
    pub fn member_now(&self, a: &str) -> Option<u64> {
        self.members.get(a).and_then(|t| t.current().cloned()).flatten()
    }
    pub fn heights(&self, now: u64, rng: &mut crate::rng::Rng) -> Vec<u64> {
        let mut hs: BTreeSet<u64> = BTreeSet::new();
        for h in [0, 1, self.h0.saturating_sub(1), self.h0, self.h0 + 1, now.saturating_sub(1), now, now + 1, now + 1000, u64::MAX] {
            hs.insert(h);
        }
        // boundary heights of up to 4 sampled changes plus the most recent two
        let ch: Vec<u64> = self.change_heights.iter().cloned().collect();
        let mut picks: Vec<u64> = ch.iter().rev().take(2).cloned().collect();
        for _ in 0..4 {
            if !ch.is_empty() {
                picks.push(*rng.pick(&ch));
            }
        }
        for c in picks {
            hs.insert(c.saturating_sub(1));
            hs.insert(c);
            hs.insert(c + 1);
        }
        hs.into_iter().collect()
    }
}

impl C09 {
    fn observe(&self, h: &mut Hist, g: &Group, m: &Model, site: &str) -> bool {
        let now = g.w.block.height;
        let listed = g.list();
        // total = sum of listed members
        let sum: u128 = listed.iter().map(|x| x.1 as u128).sum();
        let total = match g.total(None) {
            Res::Ok(t) => t,
            other => {
                h.violate(&format!("C09/group/{site}/total-query-failed"), other.err_text());
                return false;
            }
        };
        if !h.check(sum == total as u128, &format!("C09/group/{site}/total-ne-sum-of-members"), || {
            format!("TotalWeight={total} but listed members sum to {sum}: {listed:?}")
        }) {
            return false;
        }
        // listing equals the model's current membership
        let want: Vec<(String, u64)> = m
            .members
            .iter()
            .filter_map(|(a, t)| t.current().cloned().flatten().map(|w| (a.clone(), w)))
            .collect();
        if !h.check(listed == want, &format!("C09/group/{site}/listing-differs-from-history"), || {
            format!("ListMembers={listed:?}, true membership={want:?}")
        }) {
            return false;
        }
        // raw keys published by the spec
        let raw_total = g.raw_total();
        if !h.check(raw_total == Some(total), &format!("C09/group/{site}/raw-total-key-differs"), || {
            format!("raw TOTAL_KEY={raw_total:?}, smart query={total}")
        }) {
            return false;
        }
        // ... also when read through the helper other contracts use (packages/cw4 Cw4Contract)
        let via_total = g.via_helper(|c, q| c.total_weight(q));
        if !h.check(via_total == Some(total), &format!("C09/group/{site}/package-helper-total-differs"), || format!("Cw4Contract::total_weight={via_total:?}, smart query={total}")) {
            return false;
        }
        let via_list: Option<Vec<(String, u64)>> = g.via_helper(|c, q| {
            let mut out = vec![];
            let mut cur: Option<String> = None;
            loop {
                let page = c.list_members(q, cur.clone(), Some(4))?;
                if page.is_empty() || out.len() > 500 {
                    break;
                }
                cur = page.last().map(|m| m.addr.clone());
                out.extend(page.into_iter().map(|m| (m.addr, m.weight)));
            }
            Ok(out)
        });
        if !h.check(via_list.as_ref() == Some(&listed), &format!("C09/group/{site}/package-helper-listing-differs"), || format!("Cw4Contract::list_members={via_list:?}, ListMembers={listed:?}")) {
            return false;
        }
        let heights = m.heights(now, &mut h.rng);
        let mut addrs: Vec<String> = pool().actors.clone();
        for a in m.members.keys() {
            if !addrs.contains(a) {
                addrs.push(a.clone());
            }
        }
        for a in &addrs {
            let cur = match g.member(a, None) {
                Res::Ok(w) => w,
                other => {
                    h.violate(&format!("C09/group/{site}/member-query-failed"), other.err_text());
                    return false;
                }
            };
            let want = m.member_now(a);
            if !h.check(cur == want, &format!("C09/group/{site}/current-weight-wrong"), || {
                format!("Member({a}) = {cur:?}, history says {want:?}")
            }) {
                return false;
            }
            let raw = g.raw_member(a);
            if !h.check(raw == cur, &format!("C09/group/{site}/raw-member-key-differs"), || {
                format!("raw member_key({a})={raw:?}, smart query={cur:?}")
            }) {
                return false;
            }
            let addr = cosmwasm_std::Addr::unchecked(a);
            let via_now = g.via_helper(|c, q| c.is_member(q, &addr, None));
            if !h.check(via_now == Some(cur), &format!("C09/group/{site}/package-helper-member-differs"), || format!("Cw4Contract::is_member({a})={via_now:?}, smart query={cur:?}")) {
                return false;
            }
            for &q in &heights {
                let via_at = g.via_helper(|c, qq| c.is_member(qq, &addr, Some(q)));
                let want_at = m.member_at(a, q);
                if !h.check(via_at == Some(want_at), &format!("C09/group/{site}/package-helper-member-at-height-differs"), || format!("Cw4Contract::is_member({a}, {q}) = {}, history says {want_at:?}", via_at.map(|x| format!("{x:?}")).unwrap_or_else(|| "no answer (the helper failed or aborted)".into()))) {
                    return false;
                }
                let got = match g.member(a, Some(q)) {
                    Res::Ok(w) => w,
                    other => {
                        h.violate(&format!("C09/group/{site}/member-at-height-query-failed"), other.err_text());
                        return false;
                    }
                };
                let want = m.member_at(a, q);
                h.out.oracle_checks += 1;
                if got != want {
                    let rel = if m.change_heights.contains(&q) { "at-a-change-height" } else if q > now { "future" } else if q <= m.h0 { "at-or-before-instantiation" } else { "between-changes" };
                    h.violate(
                        &format!("C09/group/{site}/weight-at-height-wrong/{rel}"),
                        format!("Member({a}, at_height={q}) = {got:?}, value at the start of block {q} was {want:?} (now={now}, h0={}, changes={:?})", m.h0, m.members.get(a)),
                    );
                    return false;
                }
                if m.change_heights.contains(&q) {
                    h.out.count("queries_at_a_change_height");
                }
                if q <= m.h0 {
                    h.out.count("queries_at_or_before_instantiation");
                }
                if q > now {
                    h.out.count("queries_in_the_future");
                }
            }
        }
        for &q in &heights {
            let got = match g.total(Some(q)) {
                Res::Ok(w) => w,
                other => {
                    h.violate(&format!("C09/group/{site}/total-at-height-query-failed"), other.err_text());
                    return false;
                }
            };
            let want = m.total.at_start(q).cloned().unwrap_or(0);
            h.out.oracle_checks += 1;
            if got != want {
                h.violate(
                    &format!("C09/group/{site}/total-at-height-wrong"),
                    format!("TotalWeight(at_height={q}) = {got}, value at the start of block {q} was {want} (now={now}, total changes={:?})", m.total.changes),
                );
                return false;
            }
        }
        h.out.state(&(listed.len(), m.change_heights.len().min(8), total == 0));
        true
    }
}

impl Monitor for C09 {
    fn id(&self) -> &'static str {
        "C09"
    }
    fn engine(&self) -> &'static str {
        "cwv-direct (cw4-group) + cwv-app (cw4-stake, every 4th history)"
    }
    fn histories(&self, tier: Tier) -> u64 {
        tier.pick(1_000, 24_000)
    }
    fn mandatory(&self) -> Vec<&'static str> {
        vec![
            "updates_ok",
            "groups_with_more_than_30_members",
            "several_changes_to_one_address_in_one_block",
            "re_adds_after_removal",
            "queries_at_a_change_height",
            "queries_at_or_before_instantiation",
            "queries_in_the_future",
            "same_block_updates",
            "stake_steps_checked",
            "stake_queries_at_a_change_height",
        ]
    }
    fn rule(&self) -> &'static str {
        "seeded random cw4-group histories: initial member lists (duplicates, zero and huge weights), UpdateMembers with overlapping add/remove lists, re-weights, removals and re-adds, several updates inside one block and gaps between blocks. After every call the monitor compares ListMembers, TotalWeight, Member(now), the raw TOTAL_KEY / member_key reads and Member/TotalWeight at ~20 boundary heights (0, instantiation -1/0/+1, change heights -1/0/+1, now, now+1, far future) with an independent per-address timeline (value at the start of block h = value after the last change in a block < h). distinct = (operation, outcome, same block as previous change?, touched an existing member?, removed?)"
    }
    fn assumptions(&self) -> Vec<&'static str> {
        vec!["raw reads use the key layout exported by packages/cw4 (TOTAL_KEY, member_key)", "only executed histories are judged"]
    }
    fn run_history(&self, h: &mut Hist) {
        if h.idx % 4 == 3 {
            // cw4-stake pass (AppDriver)
            crate::monitor::stake::Stake { prop: "C09" }.run(h);
            return;
        }
        let mut g = Group::new(&mut h.rng);
        let hostile = h.rng.chance(1, 4);
        let mut members = gen_members(&mut h.rng, hostile);
        if !hostile && h.idx % 12 == 1 {
            // a group larger than the biggest listing page
            let extra = 31 + h.rng.below_usize(30);
            for i in 0..extra {
                members.push((crate::direct::mk_addr(&format!("bulk-{i:02}")), 1 + h.rng.below(9)));
            }
            h.out.count("groups_with_more_than_30_members");
        }
        let admin = pool().actors[0].clone();
        let r = g.instantiate(Some(admin.clone()), &members);
        h.out.evaluations += 1;
        h.note(format!("instantiate h0={} members={members:?} => {}", g.w.block.height, r.class()));
        if !r.is_ok() {
            h.out.count("instantiate_rejected");
            return;
        }
        let h0 = g.w.block.height;
        let mut m = Model::new(h0);
        let mut tot: u128 = 0;
        for (a, w) in &members {
            m.set_member(h0, a, Some(*w));
            tot += *w as u128;
        }
        if !h.check(tot <= u64::MAX as u128, "C09/group/instantiate/accepted-total-above-u64", || format!("sum of weights {tot}")) {
            return;
        }
        m.total.set(h0, tot as u64);
        if !self.observe(h, &g, &m, "instantiate") {
            return;
        }
        let n = h.tier.pick(40, 70);
        let mut removed_once: BTreeSet<String> = BTreeSet::new();
        for _ in 0..n {
            // stay in the same block about half of the time
            let same_block = h.rng.chance(1, 2);
            if !same_block {
                let d = if h.rng.chance(1, 5) { h.rng.range(2, 20) } else { 1 };
                g.w.advance(d, d * 6);
            }
            let pre = g.snap();
            let (sender, op) = gen_op(&mut h.rng, &pre, &[]);
            let r = g.exec(&sender, &op);
            log_op(h, &g, &sender, &op, &r);
            h.out.evaluations += 1;
            if let Res::Abort(_) = &r {
                h.out.abort(&crate::direct::last_panic_site());
            }
            let now = g.w.block.height;
            if let (true, Op::UpdateMembers { add, remove }) = (r.is_ok(), &op) {
                h.out.count("updates_ok");
                if m.change_heights.contains(&now) {
                    h.out.count("same_block_updates");
                }
                // apply: adds first (in the contract's order the result per address is the same), then removals
                let mut cur: BTreeMap<String, u64> = as_map(&pre.members);
                let mut touched: BTreeMap<String, u32> = BTreeMap::new();
                for (a, w) in add {
                    cur.insert(a.clone(), *w);
                    *touched.entry(a.clone()).or_insert(0) += 1;
                }
                for a in remove {
                    if cur.remove(a).is_some() {
                        *touched.entry(a.clone()).or_insert(0) += 1;
                        removed_once.insert(a.clone());
                    }
                }
                for (a, _) in &touched {
                    let before_in_block = m.members.get(a).map(|t| t.changes.last().map(|c| c.0 == now).unwrap_or(false)).unwrap_or(false);
                    if before_in_block {
                        h.out.count("several_changes_to_one_address_in_one_block");
                    }
                    let w = cur.get(a).cloned();
                    if w.is_some() && removed_once.contains(a) && pre.weight(a).is_none() {
                        h.out.count("re_adds_after_removal");
                    }
                    m.set_member(now, a, w);
                }
                let t: u128 = cur.values().map(|w| *w as u128).sum();
                m.total.set(now, t as u64);
                m.change_heights.insert(now);
                h.out.distinct(&("update_members", "ok", same_block, add.iter().any(|x| pre.weight(&x.0).is_some()), !remove.is_empty()));
            } else {
                h.out.distinct(&(op.kind(), r.class(), same_block));
            }
            if !self.observe(h, &g, &m, op.kind()) {
                return;
            }
        }
    }
}

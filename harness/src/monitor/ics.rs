//! cw20-ics20 monitors (AppDriver + IBC shim + relayer/counterparty model):
//! C11 escrow covers vouchers (malicious counterparty), C12 exact voucher accounting and
//! error-acks-change-nothing (honest counterparty, upgrade paths), C18 allow-list governance.

use crate::chain::{take_shim_log, Chain, Ends, PacketRec, ShimMsg, SubLog};
use crate::core::{Hist, Monitor, Tier};
use crate::cw20w::{pool, short};
use crate::direct::{mk_addr, Res};
use crate::rng::Rng;
use cosmwasm_std::{coin, to_json_binary, Addr, BankMsg, Binary, Coin, CosmosMsg, Uint128, WasmMsg};
use cw20_ics20::msg::{AllowMsg, ChannelResponse, ConfigResponse, ExecuteMsg, InitMsg, ListAllowedResponse, MigrateMsg, QueryMsg, TransferMsg};
use cw_multi_test::AppResponse;
use std::collections::{BTreeMap, BTreeSet};

pub struct Ics {
    pub prop: &'static str,
}

const NATIVE: [&str; 2] = ["uatom", "uosmo"];
const CP_PORT: &str = "transfer";

#[derive(Clone, Debug, PartialEq, Eq, PartialOrd, Ord, Hash)]
enum Token {
    Native(String),
    Cw20(String),
}

impl Token {
    fn denom(&self) -> String {
        match self {
            Token::Native(d) => d.clone(),
            Token::Cw20(a) => format!("cw20:{a}"),
        }
    }
}

#[derive(Clone, Debug)]
struct Pending {
    seq: u64,
    channel: String,
    denom: String,
    amount: u128,
    sender: String,
    data: Binary,
}

#[derive(Clone, Debug)]
enum Op {
    TransferNative { channel: String, denom: String, amount: u128, extra_coin: bool, timeout: Option<u64>, memo: Option<String> },
    TransferCw20 { token: usize, channel: String, amount: u128, timeout: Option<u64>, memo: Option<String> },
    /// a user calls Receive directly, posing as a cw20 contract
    DirectReceive { channel: String, amount: u128 },
    /// honest counterparty returns vouchers it holds
    ReturnVoucher { channel: String, denom: String, amount: u128, receiver: String },
    /// malicious incoming packet
    Malicious { channel: String, denom: String, amount: u128, receiver: String, src_port: String, src_channel: String, garbage: bool },
    AckSuccess { idx: usize },
    AckError { idx: usize },
    Timeout { idx: usize },
    Allow { contract: String, gas: Option<u64> },
    UpdateAdmin { admin: String },
    Migrate { default_gas: Option<u64> },
    Fault { flaky: bool, bank: bool },
}

impl Op {
    fn kind(&self) -> &'static str {
        match self {
            Op::TransferNative { .. } => "transfer_native",
            Op::TransferCw20 { .. } => "transfer_cw20",
            Op::DirectReceive { .. } => "direct_receive",
            Op::ReturnVoucher { .. } => "receive_honest",
            Op::Malicious { .. } => "receive_malicious",
            Op::AckSuccess { .. } => "ack_success",
            Op::AckError { .. } => "ack_error",
            Op::Timeout { .. } => "timeout",
            Op::Allow { .. } => "allow",
            Op::UpdateAdmin { .. } => "update_admin",
            Op::Migrate { .. } => "migrate",
            Op::Fault { .. } => "fault_switch",
        }
    }
}

#[derive(Clone, Debug, PartialEq, Default)]
struct Snap {
    /// (channel, denom) -> (outstanding, total_sent)
    chan: BTreeMap<(String, String), (u128, u128)>,
    /// genuine token -> contract holdings
    holdings: BTreeMap<Token, u128>,
    /// (user, token) -> balance
    users: BTreeMap<(String, Token), u128>,
    allow: BTreeMap<String, Option<u64>>,
    default_gas: Option<u64>,
    default_timeout: u64,
    admin: Option<String>,
    packets: u64,
}

struct World {
    c: Chain,
    ics: Addr,
    our_port: String,
    channels: Vec<(String, String)>, // (our channel, counterparty channel)
    cw20s: Vec<Addr>,                // [plain A, flaky B, plain C]
    users: Vec<String>,
    gov: String,
    former_gov: Vec<String>,
    chain_admin: String,
    pending: Vec<Pending>,
    /// vouchers the remote side holds: (channel, denom) -> amount (after success acks)
    remote: BTreeMap<(String, String), u128>,
    /// ledger per (channel, denom)
    sent: BTreeMap<(String, String), u128>,
    failed: BTreeMap<(String, String), u128>,
    redeemed: BTreeMap<(String, String), u128>,
    /// token-level ledger for C11: escrowed / paid out per (channel, token denom)
    escrowed: BTreeMap<(String, String), u128>,
    paid_out: BTreeMap<(String, String), u128>,
    /// (channel, denom) pairs whose books are known to be wrong after a v2 migration (known finding)
    afflicted: BTreeSet<(String, String)>,
    /// redemptions the contract paid to its OWN address, per (channel, denom): tokens it holds that are no escrow
    self_paid: BTreeMap<(String, String), u128>,
    /// (channel, denom) pairs whose books a legacy migration inflated by exactly such holdings (known finding)
    surplus_booked: BTreeSet<(String, String)>,
    flaky_on: bool,
    bank_on: bool,
    next_seq_in: u64,
    migrated_from: Option<&'static str>,
    /// a legal native denom (token-factory style) that merely CONTAINS the text "cw20:<addr>"
    odd_denom: String,
    /// legal native denoms that are letter-case variants of the internal cw20 encoding: "CW20:<addr>", "Cw20:<addr>"
    case_denoms: Vec<String>,
}

impl World {
    fn tokens(&self) -> Vec<Token> {
        let mut v: Vec<Token> = NATIVE.iter().map(|d| Token::Native(d.to_string())).collect();
        v.push(Token::Native(self.odd_denom.clone()));
        v.extend(self.case_denoms.iter().map(|d| Token::Native(d.clone())));
        v.extend(self.cw20s.iter().map(|a| Token::Cw20(a.to_string())));
        v
    }
    fn balance(&self, who: &str, t: &Token) -> u128 {
        match t {
            Token::Native(d) => self.c.bank(who, d),
            Token::Cw20(a) => self.c.cw20_balance(&Addr::unchecked(a), who),
        }
    }
    fn cp_channel(&self, ours: &str) -> String {
        self.channels.iter().find(|c| c.0 == ours).map(|c| c.1.clone()).unwrap_or_else(|| "channel-999".into())
    }
    fn snap(&self, h: &mut Hist, prop: &str) -> Option<Snap> {
        let mut s = Snap::default();
        for (ch, _) in &self.channels {
            let r: Res<ChannelResponse> = self.c.query(&self.ics, &QueryMsg::Channel { id: ch.clone() });
            let Res::Ok(r) = r else {
                h.violate(&format!("{prop}/query/channel-query-failed"), format!("channel {ch}"));
                return None;
            };
            for (b, t) in r.balances.iter().zip(r.total_sent.iter()) {
                s.chan.insert((ch.clone(), b.denom()), (b.amount().u128(), t.amount().u128()));
            }
        }
        for t in self.tokens() {
            s.holdings.insert(t.clone(), self.balance(self.ics.as_str(), &t));
            for u in &self.users {
                s.users.insert((u.clone(), t.clone()), self.balance(u, &t));
            }
        }
        let mut cursor: Option<String> = None;
        loop {
            let page: Res<ListAllowedResponse> = self.c.query(&self.ics, &QueryMsg::ListAllowed { start_after: cursor.clone(), limit: Some(30) });
            let Res::Ok(page) = page else {
                h.violate(&format!("{prop}/query/list-allowed-failed"), "failed".into());
                return None;
            };
            if page.allow.is_empty() {
                break;
            }
            cursor = page.allow.last().map(|a| a.contract.clone());
            for a in page.allow {
                s.allow.insert(a.contract, a.gas_limit);
            }
        }
        let cfg: Res<ConfigResponse> = self.c.query(&self.ics, &QueryMsg::Config {});
        let Res::Ok(cfg) = cfg else {
            h.violate(&format!("{prop}/query/config-failed"), "failed".into());
            return None;
        };
        s.default_gas = cfg.default_gas_limit;
        s.default_timeout = cfg.default_timeout;
        let adm: Res<cw_controllers::AdminResponse> = self.c.query(&self.ics, &QueryMsg::Admin {});
        s.admin = adm.ok().and_then(|a| a.admin);
        if prop == "C18" {
            // the point query and the governance field of Config tell the same story as the listing / Admin
            for t in &self.cw20s {
                let r: Res<cw20_ics20::msg::AllowedResponse> = self.c.query(&self.ics, &QueryMsg::Allowed { contract: t.to_string() });
                let Res::Ok(r) = r else {
                    h.violate("C18/query/allowed-query-failed", format!("Allowed{{{t}}}"));
                    return None;
                };
                let listed = s.allow.get(t.as_str()).cloned();
                h.out.oracle_checks += 1;
                let agree = match listed {
                    Some(g) => r.is_allowed && r.gas_limit == g,
                    None => !r.is_allowed && r.gas_limit.is_none(),
                };
                if !agree {
                    h.violate("C18/query/allowed-differs-from-list-allowed", format!("token {t}: Allowed says ({}, {:?}), ListAllowed says {listed:?}", r.is_allowed, r.gas_limit));
                    return None;
                }
            }
            h.out.oracle_checks += 1;
            if cfg.gov_contract != s.admin.clone().unwrap_or_default() {
                h.violate("C18/query/config-governance-differs-from-admin", format!("Config.gov_contract {:?}, Admin {:?}", cfg.gov_contract, s.admin));
                return None;
            }
        }
        s.packets = self.c.packet_count();
        Some(s)
    }
    fn model_outstanding(&self, k: &(String, String)) -> i128 {
        *self.sent.get(k).unwrap_or(&0) as i128 - *self.failed.get(k).unwrap_or(&0) as i128 - *self.redeemed.get(k).unwrap_or(&0) as i128
    }
    fn token_of_denom(&self, denom: &str) -> Option<Token> {
        self.tokens().into_iter().find(|t| t.denom() == denom)
    }
}

/// the remote address a user asks for: mostly plain, sometimes with surrounding whitespace (passed on verbatim)
fn remote_of(sender: &str, amount: u128) -> String {
    match amount % 9 {
        1 => format!(" remote-{}", short(sender)),
        2 => format!("remote-{}\n", short(sender)),
        3 => format!("\tremote-{} ", short(sender)),
        _ => format!("remote-{}", short(sender)),
    }
}

fn packet_json(amount: u128, denom: &str, receiver: &str, sender: &str, memo: Option<&str>) -> Binary {
    let mut v = serde_json::json!({"amount": amount.to_string(), "denom": denom, "receiver": receiver, "sender": sender});
    if let Some(m) = memo {
        v["memo"] = serde_json::Value::String(m.to_string());
    }
    Binary::from(serde_json::to_vec(&v).unwrap())
}

fn ack_is_success(data: &Option<Binary>) -> Option<bool> {
    let d = data.as_ref()?;
    let v: serde_json::Value = serde_json::from_slice(d.as_slice()).ok()?;
    if v.get("result").is_some() {
        Some(true)
    } else if v.get("error").is_some() {
        Some(false)
    } else {
        None
    }
}

impl Ics {
    fn setup(&self, h: &mut Hist, single_channel: bool) -> Option<World> {
        self.setup_with(h, single_channel, None, None)
    }

    /// `fixed`: (allow list as (token index, gas limit), default gas limit); `two_colliding`: force two
    /// channels whose remote ids are the other channel's local id
    fn setup_with(&self, h: &mut Hist, single_channel: bool, fixed: Option<(Vec<(usize, Option<u64>)>, Option<u64>)>, two_colliding: Option<bool>) -> Option<World> {
        let pl = pool();
        let mut c = Chain::new(h.rng.range(10, 5000), h.rng.range(1_600_000_000, 1_800_000_000));
        let (fb, fs) = h.rng.far_future();
        c.advance(fb, fs);
        if fb + fs > 0 {
            h.out.count("worlds_far_in_the_future");
        }
        let jitter = h.rng.below(1_000_000_000);
        let t0 = c.time_ns();
        c.set_time_ns(t0 + jitter, 0);
        let owner = c.owner.to_string();
        let users: Vec<String> = pl.actors[..3].to_vec();
        let bals: Vec<(String, u128)> = users.iter().map(|u| (u.clone(), 1u128 << 80)).collect();
        let cw20s = vec![c.new_cw20(false, &bals, None), c.new_cw20(true, &bals, None), c.new_cw20(false, &bals, None)];
        let odd_denom = format!("factory/{}/cw20:{}", &users[0][..20], cw20s[0]);
        let case_denoms = vec![format!("CW20:{}", cw20s[0]), format!("Cw20:{}", cw20s[2])];
        for u in &users {
            for d in NATIVE {
                c.fund(u, 1u128 << 80, d);
            }
            c.fund(u, 1u128 << 80, &odd_denom);
            for d in &case_denoms {
                c.fund(u, 1u128 << 80, d);
            }
            for t in &cw20s {
                c.fund(u, 1u128 << 40, &format!("cw20:{t}"));
            }
        }
        let gov = mk_addr("gov");
        let default_gas = match h.rng.below(3) {
            0 => Some(h.rng.range(100_000, 500_000)),
            _ => None,
        };
        let mut allowlist = vec![];
        if h.rng.chance(4, 5) {
            allowlist.push(AllowMsg { contract: cw20s[0].to_string(), gas_limit: if h.rng.chance(1, 2) { Some(h.rng.range(50_000, 300_000)) } else { None } });
        }
        if h.rng.chance(3, 5) {
            allowlist.push(AllowMsg { contract: cw20s[1].to_string(), gas_limit: if h.rng.chance(1, 2) { Some(h.rng.range(50_000, 300_000)) } else { None } });
        }
        let (allowlist, default_gas) = match &fixed {
            Some((al, dg)) => (al.iter().map(|(i, g)| AllowMsg { contract: cw20s[*i].to_string(), gas_limit: *g }).collect::<Vec<_>>(), *dg),
            None => (allowlist, default_gas),
        };
        let msg = InitMsg { default_timeout: h.rng.range(1, 3600), gov_contract: gov.clone(), allowlist: allowlist.clone(), default_gas_limit: default_gas };
        let ics = match c.instantiate(c.codes.ics20, &owner, &msg, "ics20", Some(owner.clone())) {
            Res::Ok(a) => a,
            _ => return None,
        };
        let our_port = format!("wasm.{ics}");
        let nch = if two_colliding == Some(true) {
            2
        } else if single_channel {
            1
        } else {
            h.rng.range(2, 3) as usize
        };
        let mut channels = vec![];
        // channel ids are independent counters on the two chains: half of the worlds use remote ids
        // that collide with (a rotation of) the local ids, the other half remote ids that are string
        // prefixes of one another (channel-5, channel-51, channel-517)
        let collide = two_colliding.unwrap_or_else(|| h.rng.chance(1, 2));
        for i in 0..nch {
            let ours = format!("channel-{}", [1, 2, 7][i]);
            let theirs = if collide { format!("channel-{}", [1, 2, 7][(i + 1) % nch.max(1)]) } else { format!("channel-{}", [5, 51, 517][i]) };
            let r = c.sudo(
                &ics,
                &ShimMsg::ChannelConnect { channel_id: ours.clone(), port: our_port.clone(), counterparty_port: CP_PORT.into(), counterparty_channel: theirs.clone(), version: "ics20-1".into(), ordered: false },
            );
            if !r.is_ok() {
                h.out.inconclusive = Some(format!("channel connect failed: {}", r.err_text()));
                return None;
            }
            channels.push((ours, theirs));
        }
        let _ = take_shim_log();
        h.note(format!(
            "ics20 default_gas={default_gas:?} allowlist={:?} channels={channels:?} cw20s=[A plain, B flaky, C plain]",
            allowlist.iter().map(|a| (short(&a.contract), a.gas_limit)).collect::<Vec<_>>()
        ));
        Some(World {
            c,
            ics,
            our_port,
            channels,
            cw20s,
            users,
            gov,
            former_gov: vec![],
            chain_admin: owner,
            pending: vec![],
            remote: BTreeMap::new(),
            sent: BTreeMap::new(),
            failed: BTreeMap::new(),
            redeemed: BTreeMap::new(),
            escrowed: BTreeMap::new(),
            paid_out: BTreeMap::new(),
            afflicted: BTreeSet::new(),
            self_paid: BTreeMap::new(),
            surplus_booked: BTreeSet::new(),
            flaky_on: false,
            bank_on: false,
            next_seq_in: 1,
            migrated_from: None,
            odd_denom,
            case_denoms,
        })
    }

    fn gen_op(&self, h: &mut Hist, w: &World, pre: &Snap) -> (String, Op) {
        let rng = &mut h.rng;
        let user = rng.pick_cloned(&w.users);
        let chan = |rng: &mut Rng| -> String {
            if rng.chance(1, 20) {
                "channel-404".to_string()
            } else {
                rng.pick(&w.channels).0.clone()
            }
        };
        let amt = |rng: &mut Rng| -> u128 {
            match rng.below(14) {
                0 => 0,
                1 => u64::MAX as u128,
                2 => u64::MAX as u128 + 1,
                _ => rng.range(1, 5000) as u128,
            }
        };
        let tmo = |rng: &mut Rng| if rng.chance(1, 2) { Some(rng.range(1, 1000)) } else { None };
        let memo = |rng: &mut Rng| match rng.below(4) {
            0 => Some(String::new()),
            1 => Some(format!("memo-{}", rng.below(100))),
            _ => None,
        };
        let malicious = self.prop == "C11";
        let weights: [u32; 12] = match self.prop {
            "C18" => [10, 22, 2, 12, 2, 6, 6, 4, 22, 6, 4, 4],
            "C11" => [14, 14, 3, 12, 18, 8, 8, 6, 3, 1, 0, 13],
            _ => [16, 16, 3, 18, 0, 10, 10, 8, 4, 1, 3, 11],
        };
        let mut k = rng.weighted(&weights);
        if w.pending.is_empty() && matches!(k, 5 | 6 | 7) {
            k = 0;
        }
        if !malicious && k == 4 {
            k = 3;
        }
        match k {
            0 => {
                let denom = match rng.below(20) {
                    0..=2 => w.odd_denom.clone(),
                    3 => rng.pick_cloned(&w.case_denoms),
                    // a native coin whose denom is the internal encoding of a cw20 token
                    4 => format!("cw20:{}", w.cw20s[rng.below_usize(3)]),
                    _ => rng.pick(&NATIVE).to_string(),
                };
                (user, Op::TransferNative { channel: chan(rng), denom, amount: amt(rng), extra_coin: rng.chance(1, 15), timeout: tmo(rng), memo: memo(rng) })
            }
            1 => (user, Op::TransferCw20 { token: rng.below_usize(3), channel: chan(rng), amount: amt(rng), timeout: tmo(rng), memo: memo(rng) }),
            2 => (user, Op::DirectReceive { channel: chan(rng), amount: 1 + rng.below(1000) as u128 }),
            3 => {
                // honest return of vouchers the remote side holds
                let held: Vec<(&(String, String), &u128)> = w.remote.iter().filter(|(_, v)| **v > 0).collect();
                if held.is_empty() {
                    return (user, Op::TransferNative { channel: chan(rng), denom: rng.pick(&NATIVE).to_string(), amount: 1 + rng.below(3000) as u128, extra_coin: false, timeout: None, memo: None });
                }
                let (k, v) = *rng.pick(&held);
                let amount = match rng.below(4) {
                    0 => *v,
                    1 => 1,
                    _ => rng.range128(1, *v),
                };
                let receiver = if rng.chance(1, 8) { "not-a-valid-address".to_string() } else { rng.pick_cloned(&w.users) };
                // now and then the vouchers are sent home to the transfer contract's own address
                let mut side = rng.clone();
                side.below(1000);
                let receiver = if side.chance(1, 10) && self.prop == "C12" { w.ics.to_string() } else { receiver };
                ("relayer".into(), Op::ReturnVoucher { channel: k.0.clone(), denom: k.1.clone(), amount, receiver })
            }
            4 => {
                let ch = rng.pick(&w.channels).clone();
                let toks = w.tokens();
                let base = match rng.below(6) {
                    0 => "ufake".to_string(),
                    1 => format!("cw20:{}", mk_addr("no-such-token")),
                    _ => rng.pick(&toks).denom(),
                };
                let outstanding = pre.chan.get(&(ch.0.clone(), base.clone())).map(|x| x.0).unwrap_or(0);
                let amount = match rng.below(6) {
                    0 => outstanding.saturating_add(1),
                    1 => outstanding,
                    2 => u128::MAX,
                    3 => 0,
                    _ => rng.range(1, 5000) as u128,
                };
                let other = rng.pick(&w.channels).clone();
                let (src_port, src_channel, denom) = match rng.below(8) {
                    0 => (CP_PORT.to_string(), ch.1.clone(), base.clone()), // no prefix at all
                    1 => ("evil".to_string(), ch.1.clone(), format!("{CP_PORT}/{}/{base}", ch.1)), // packet from another port
                    2 => (CP_PORT.to_string(), ch.1.clone(), format!("evil/{}/{base}", ch.1)), // denom names another port
                    3 => (CP_PORT.to_string(), ch.1.clone(), format!("{CP_PORT}/{}/{base}", other.1)), // denom names another channel
                    4 => (CP_PORT.to_string(), ch.1.clone(), format!("{CP_PORT}/{}/{}/{base}", ch.1, ch.1)),
                    _ => (CP_PORT.to_string(), ch.1.clone(), format!("{CP_PORT}/{}/{base}", ch.1)), // well-formed: arbitrary redemption attempt
                };
                let receiver = match rng.below(5) {
                    0 => "garbage".to_string(),
                    1 => w.ics.to_string(),
                    _ => rng.pick_cloned(&w.users),
                };
                ("relayer".into(), Op::Malicious { channel: if rng.chance(1, 15) { "channel-404".into() } else { ch.0 }, denom, amount, receiver, src_port, src_channel, garbage: rng.chance(1, 12) })
            }
            5 => ("relayer".into(), Op::AckSuccess { idx: rng.below_usize(w.pending.len()) }),
            6 => ("relayer".into(), Op::AckError { idx: rng.below_usize(w.pending.len()) }),
            7 => ("relayer".into(), Op::Timeout { idx: rng.below_usize(w.pending.len()) }),
            8 => {
                let sender = match rng.below(10) {
                    0..=5 => pre.admin.clone().unwrap_or_else(|| w.gov.clone()),
                    6 if !w.former_gov.is_empty() => rng.pick_cloned(&w.former_gov),
                    _ => user,
                };
                let contract = if rng.chance(1, 20) { "bad-address".to_string() } else { w.cw20s[rng.below_usize(3)].to_string() };
                // now and then the token contract itself asks to be allowed / to have its limit changed
                let mut side = rng.clone();
                side.below(1000);
                let sender = if side.chance(1, 10) && contract != "bad-address" { contract.clone() } else { sender };
                let cur = pre.allow.get(&contract).cloned();
                let gas = match (cur, rng.below(8)) {
                    (_, 0) => None,
                    (_, 6) => Some(u64::MAX),
                    (_, 7) => Some(if rng.chance(1, 2) { 0 } else { u64::MAX - 1 }),
                    (Some(Some(g)), 1) => Some(g.saturating_sub(1)), // try to lower
                    (Some(Some(g)), 2) => Some(g),
                    (Some(Some(g)), 3) => Some(g.saturating_add(rng.range(1, 1000))),
                    _ => Some(rng.range(10_000, 400_000)),
                };
                (sender, Op::Allow { contract, gas })
            }
            9 => {
                let sender = if rng.chance(2, 3) { pre.admin.clone().unwrap_or_else(|| w.gov.clone()) } else { user };
                (sender, Op::UpdateAdmin { admin: mk_addr(&format!("gov-{}", rng.below(3))) })
            }
            10 => {
                let sender = if rng.chance(4, 5) { w.chain_admin.clone() } else { user };
                (sender, Op::Migrate { default_gas: if rng.chance(1, 2) { Some(rng.range(50_000, 600_000)) } else { None } })
            }
            _ => (w.chain_admin.clone(), Op::Fault { flaky: rng.chance(1, 3), bank: rng.chance(1, 4) }),
        }
    }

    fn apply(&self, w: &mut World, sender: &str, op: &Op) -> Res<AppResponse> {
        let ics = w.ics.clone();
        match op {
            Op::TransferNative { channel, denom, amount, extra_coin, timeout, memo } => {
                let mut f: Vec<Coin> = if *amount == 0 { vec![] } else { vec![coin(*amount, denom)] };
                if *extra_coin {
                    f.push(coin(1, if denom == "uatom" { "uosmo" } else { "uatom" }));
                }
                w.c.exec(sender, &ics, &ExecuteMsg::Transfer(TransferMsg { channel: channel.clone(), remote_address: remote_of(sender, *amount), timeout: *timeout, memo: memo.clone() }), &f)
            }
            Op::TransferCw20 { token, channel, amount, timeout, memo } => {
                let t = w.cw20s[*token].clone();
                let m = TransferMsg { channel: channel.clone(), remote_address: remote_of(sender, *amount), timeout: *timeout, memo: memo.clone() };
                w.c.exec(sender, &t, &cw20::Cw20ExecuteMsg::Send { contract: ics.to_string(), amount: Uint128::new(*amount), msg: to_json_binary(&m).unwrap() }, &[])
            }
            Op::DirectReceive { channel, amount } => {
                let m = TransferMsg { channel: channel.clone(), remote_address: "remote".into(), timeout: None, memo: None };
                w.c.exec(sender, &ics, &ExecuteMsg::Receive(cw20::Cw20ReceiveMsg { sender: sender.to_string(), amount: Uint128::new(*amount), msg: to_json_binary(&m).unwrap() }), &[])
            }
            Op::ReturnVoucher { channel, denom, amount, receiver } => {
                let cp = w.cp_channel(channel);
                let data = packet_json(*amount, &format!("{CP_PORT}/{cp}/{denom}"), receiver, "remote-sender", None);
                let seq = w.next_seq_in;
                w.next_seq_in += 1;
                w.c.sudo(&ics, &ShimMsg::Receive { data, ends: Ends { src_port: CP_PORT.into(), src_channel: cp, dest_port: w.our_port.clone(), dest_channel: channel.clone() }, sequence: seq })
            }
            Op::Malicious { channel, denom, amount, receiver, src_port, src_channel, garbage } => {
                let data = if *garbage { Binary::from(b"{\"amount\": 12, \"den".to_vec()) } else { packet_json(*amount, denom, receiver, "mallory", Some("x")) };
                let seq = w.next_seq_in;
                w.next_seq_in += 1;
                w.c.sudo(&ics, &ShimMsg::Receive { data, ends: Ends { src_port: src_port.clone(), src_channel: src_channel.clone(), dest_port: w.our_port.clone(), dest_channel: channel.clone() }, sequence: seq })
            }
            Op::AckSuccess { idx } | Op::AckError { idx } | Op::Timeout { idx } => {
                let p = w.pending[*idx].clone();
                let ends = Ends { src_port: w.our_port.clone(), src_channel: p.channel.clone(), dest_port: CP_PORT.into(), dest_channel: w.cp_channel(&p.channel) };
                match op {
                    Op::AckSuccess { .. } => w.c.sudo(&ics, &ShimMsg::Ack { ack: Binary::from(br#"{"result":"MQ=="}"#.to_vec()), data: p.data, ends, sequence: p.seq }),
                    Op::AckError { .. } => w.c.sudo(&ics, &ShimMsg::Ack { ack: Binary::from(br#"{"error":"remote refused"}"#.to_vec()), data: p.data, ends, sequence: p.seq }),
                    _ => w.c.sudo(&ics, &ShimMsg::Timeout { data: p.data, ends, sequence: p.seq }),
                }
            }
            Op::Allow { contract, gas } => w.c.exec(sender, &ics, &ExecuteMsg::Allow(AllowMsg { contract: contract.clone(), gas_limit: *gas }), &[]),
            Op::UpdateAdmin { admin } => w.c.exec(sender, &ics, &ExecuteMsg::UpdateAdmin { admin: admin.clone() }, &[]),
            Op::Migrate { default_gas } => {
                let code = w.c.codes.ics20;
                w.c.migrate(sender, &ics, &MigrateMsg { default_gas_limit: *default_gas }, code)
            }
            Op::Fault { flaky, bank } => {
                let t = w.cw20s[1].clone();
                w.c.flaky_fail(&t, *flaky);
                w.c.set_bank_fail(*bank);
                w.flaky_on = *flaky;
                w.bank_on = *bank;
                Res::Ok(AppResponse::default())
            }
        }
    }

    #[allow(clippy::too_many_lines)]
    fn step(&self, h: &mut Hist, w: &mut World, pre: &mut Snap, sender: &str, op: &Op) -> bool {
        let prop = self.prop;
        let now = w.c.time_ns();
        let _ = take_shim_log();
        let r = self.apply(w, sender, op);
        let subs: Vec<SubLog> = take_shim_log();
        h.out.evaluations += 1;
        let kind = op.kind();
        if h.keep_log {
            h.log.push(format!(
                "t={now} {} -> {op:?} => {}{}",
                short(sender),
                r.class(),
                match &r {
                    Res::Ok(resp) => match ack_is_success(&resp.data) {
                        Some(true) => " [ack success]".to_string(),
                        Some(false) => format!(" [ack error {}]", String::from_utf8_lossy(resp.data.as_ref().unwrap().as_slice()).chars().take(80).collect::<String>()),
                        None => String::new(),
                    },
                    x => format!(" ({})", x.err_text().split_whitespace().collect::<Vec<_>>().join(" ").chars().rev().take(100).collect::<String>().chars().rev().collect::<String>()),
                }
            ));
        }
        if let Res::Abort(_) = &r {
            h.out.abort(&crate::direct::last_panic_site());
        }
        let ok = r.is_ok();
        let Some(post) = w.snap(h, prop) else {
            return false;
        };
        let ack = match &r {
            Res::Ok(resp) => ack_is_success(&resp.data),
            _ => None,
        };
        h.out.distinct(&(kind, r.class(), ack, w.flaky_on, w.bank_on, pre.default_gas.is_some(), w.migrated_from));
        let new_packets: Vec<PacketRec> = w.c.packets(pre.packets);
        let is_receive = matches!(op, Op::ReturnVoucher { .. } | Op::Malicious { .. });

        // =========== packets emitted (C12) ===========
        let transfer = match op {
            Op::TransferNative { channel, denom, amount, timeout, memo, extra_coin } => {
                // with no main coin the single extra coin is the transfer
                if *amount == 0 && *extra_coin {
                    Some((channel.clone(), if denom == "uatom" { "uosmo".to_string() } else { "uatom".to_string() }, 1, *timeout, memo.clone()))
                } else {
                    Some((channel.clone(), denom.clone(), *amount, *timeout, memo.clone()))
                }
            }
            Op::TransferCw20 { token, channel, amount, timeout, memo } => Some((channel.clone(), format!("cw20:{}", w.cw20s[*token]), *amount, *timeout, memo.clone())),
            Op::DirectReceive { channel, amount } => Some((channel.clone(), format!("cw20:{sender}"), *amount, None, None)),
            _ => None,
        };
        if let Some((channel, denom, amount, timeout, memo)) = &transfer {
            if ok {
                h.out.count("transfers_accepted");
                if !h.check(new_packets.len() == 1, &format!("{prop}/send/{kind}/not-exactly-one-packet"), || format!("{} packets emitted", new_packets.len())) {
                    return false;
                }
                let p = &new_packets[0];
                if prop == "C12" {
                    let v: serde_json::Value = serde_json::from_slice(p.data.as_slice()).unwrap_or_default();
                    let want_timeout = now + timeout.unwrap_or(pre.default_timeout) * 1_000_000_000;
                    let memo_ok = match memo {
                        Some(m) => v["memo"].as_str() == Some(m.as_str()),
                        None => v.get("memo").is_none(),
                    };
                    let good = p.channel_id == *channel
                        && p.sender == w.ics.as_str()
                        && v["amount"].as_str() == Some(amount.to_string().as_str())
                        && *amount <= u64::MAX as u128
                        && *amount > 0
                        && v["denom"].as_str() == Some(denom.as_str())
                        && v["sender"].as_str() == Some(sender)
                        && v["receiver"].as_str() == Some(if matches!(op, Op::DirectReceive { .. }) { "remote".to_string() } else { remote_of(sender, match op { Op::TransferNative { amount, .. } | Op::TransferCw20 { amount, .. } => *amount, _ => 0 }) }.as_str())
                        && memo_ok
                        && p.timeout_ns == want_timeout
                        && !p.has_block_timeout;
                    if !h.check(good, &format!("C12/send/{kind}/packet-content-wrong"), || {
                        format!("packet {v} on {} timeout {} (expected amount {amount} denom {denom} sender {sender} memo {memo:?} channel {channel} timeout {want_timeout})", p.channel_id, p.timeout_ns)
                    }) {
                        return false;
                    }
                    if timeout.is_none() {
                        h.out.count("packets_with_default_timeout");
                    }
                    if memo.is_some() {
                        h.out.count("packets_with_memo");
                    }
                    if *amount == u64::MAX as u128 {
                        h.out.count("transfers_of_exactly_u64_max");
                    }
                }
                let k = (channel.clone(), denom.clone());
                *w.sent.entry(k.clone()).or_insert(0) += amount;
                *w.escrowed.entry(k).or_insert(0) += amount;
                w.pending.push(Pending { seq: p.seq, channel: channel.clone(), denom: denom.clone(), amount: *amount, sender: sender.to_string(), data: p.data.clone() });
                // C18: a cw20 transfer is accepted only if allowed or a default is configured
                if let (true, true) = (prop == "C18", denom.starts_with("cw20:")) {
                    let addr = &denom[5..];
                    let allowed = pre.allow.contains_key(addr) || pre.default_gas.is_some();
                    if !h.check(allowed, "C18/transfer/cw20-accepted-without-allowance-or-default", || format!("{denom} sent with allow list {:?} and default {:?}", pre.allow, pre.default_gas)) {
                        return false;
                    }
                    h.out.count("cw20_transfers_accepted");
                }
            } else {
                if matches!(op, Op::TransferNative { .. }) && denom.starts_with("cw20:") {
                    h.out.count("native_transfers_with_cw20_prefixed_denom_rejected");
                }
                if !h.check(new_packets.is_empty(), &format!("{prop}/send/{kind}/rejected-transfer-emitted-packet"), || format!("{new_packets:?}")) {
                    return false;
                }
                if *amount > u64::MAX as u128 {
                    h.out.count("transfers_above_u64_rejected");
                }
                if denom.starts_with("cw20:") && !pre.allow.contains_key(&denom[5..]) && pre.default_gas.is_none() {
                    h.out.count("cw20_transfers_rejected_not_allowed");
                }
            }
        } else if !h.check(new_packets.is_empty(), &format!("{prop}/send/{kind}/packet-emitted-by-non-transfer"), || format!("{new_packets:?}")) {
            return false;
        }

        // =========== ledger updates for receive / ack / timeout ===========
        let mut this_channel: Option<String> = None;
        match op {
            Op::ReturnVoucher { channel, denom, amount, receiver } => {
                this_channel = Some(channel.clone());
                if prop == "C12" || prop == "C11" {
                    if let Res::Err(e) = &r {
                        h.violate(&format!("{prop}/receive/handling-returned-error"), format!("ibc_packet_receive path failed instead of acknowledging: {e}"));
                        return false;
                    }
                    if let Res::Abort(e) = &r {
                        h.violate(&format!("{prop}/receive/handling-aborted"), format!("panic at {e}"));
                        return false;
                    }
                }
                let k = (channel.clone(), denom.clone());
                match ack {
                    Some(true) => {
                        h.out.count("receives_acked_success");
                        *w.redeemed.entry(k.clone()).or_insert(0) += amount;
                        let e = w.remote.entry(k.clone()).or_insert(0);
                        *e = e.saturating_sub(*amount);
                        // full amount paid to the receiver, balance reduced by it
                        if prop == "C12" {
                            if *receiver == w.ics.as_str() {
                                // paid to the contract itself: its holdings stay what they were
                                h.out.count("honest_returns_addressed_to_the_contract_itself");
                                *w.self_paid.entry(k.clone()).or_insert(0) += amount;
                                if let Some(t) = w.token_of_denom(denom) {
                                    let (b0, b1) = (*pre.holdings.get(&t).unwrap_or(&0), *post.holdings.get(&t).unwrap_or(&0));
                                    if !h.check(b1 == b0, "C12/receive/self-addressed-payout-changed-holdings", || format!("holdings {b0} -> {b1}, packet amount {amount} addressed to the contract itself")) {
                                        return false;
                                    }
                                }
                            } else if let Some(t) = w.token_of_denom(denom) {
                                let b0 = *pre.users.get(&(receiver.clone(), t.clone())).unwrap_or(&0);
                                let b1 = *post.users.get(&(receiver.clone(), t.clone())).unwrap_or(&0);
                                if !h.check(b1 == b0 + amount, "C12/receive/success-ack-without-full-payout", || format!("receiver {receiver} balance {b0} -> {b1}, packet amount {amount}")) {
                                    return false;
                                }
                            }
                        }
                    }
                    Some(false) => {
                        h.out.count("receives_acked_error");
                        if w.flaky_on || w.bank_on || receiver.starts_with("not-a-valid") {
                            h.out.count("receives_with_failed_payout");
                        }
                    }
                    None => {
                        if ok && (prop == "C12" || prop == "C11") {
                            h.violate(&format!("{prop}/receive/no-acknowledgement"), "receive returned no parsable acknowledgement".into());
                            return false;
                        }
                    }
                }
            }
            Op::Malicious { channel, denom, amount, .. } => {
                this_channel = Some(channel.clone());
                if let Res::Err(e) = &r {
                    h.violate(&format!("{prop}/receive/handling-returned-error"), format!("malicious packet made the receive path fail: {e}"));
                    return false;
                }
                if let Res::Abort(e) = &r {
                    h.violate(&format!("{prop}/receive/handling-aborted"), format!("panic at {e}"));
                    return false;
                }
                match ack {
                    Some(true) => {
                        h.out.count("malicious_packets_acked_success");
                        // only possible for a well-formed voucher of this channel within its outstanding balance
                        let base = denom.splitn(3, '/').nth(2).unwrap_or("").to_string();
                        let k = (channel.clone(), base);
                        *w.redeemed.entry(k.clone()).or_insert(0) += amount;
                        let e = w.remote.entry(k).or_insert(0);
                        *e = e.saturating_sub(*amount);
                    }
                    Some(false) => h.out.count("malicious_packets_refused"),
                    None => {}
                }
            }
            Op::AckSuccess { idx } => {
                let p = w.pending[*idx].clone();
                this_channel = Some(p.channel.clone());
                if ok {
                    w.pending.remove(*idx);
                    *w.remote.entry((p.channel.clone(), p.denom.clone())).or_insert(0) += p.amount;
                    h.out.count("acks_success_processed");
                }
            }
            Op::AckError { idx } | Op::Timeout { idx } => {
                let p = w.pending[*idx].clone();
                this_channel = Some(p.channel.clone());
                if ok {
                    w.pending.remove(*idx);
                    *w.failed.entry((p.channel.clone(), p.denom.clone())).or_insert(0) += p.amount;
                    h.out.count(if matches!(op, Op::Timeout { .. }) { "timeouts_processed" } else { "acks_error_processed" });
                    // was the refund actually paid?
                    if let Some(t) = w.token_of_denom(&p.denom) {
                        let b0 = *pre.users.get(&(p.sender.clone(), t.clone())).unwrap_or(&0);
                        let b1 = *post.users.get(&(p.sender.clone(), t.clone())).unwrap_or(&0);
                        if b1 == b0 + p.amount {
                            h.out.count("refunds_paid");
                        } else {
                            h.out.count("refunds_failed_but_handling_committed");
                        }
                    }
                } else {
                    h.out.count("ack_or_timeout_handling_failed_and_reverted");
                    // a genuine error-ack / timeout of a packet the contract sent must be processed, whatever the refund
                    // does: otherwise the failed send stays booked as outstanding for good
                    let k = (p.channel.clone(), p.denom.clone());
                    // (a cw20 token that is neither allow-listed nor covered by a default gas limit, e.g. after an
                    // upgrade from the pre-allow-list format, cannot be paid out: the contract refuses up front, changes
                    // nothing and the relayer can retry once governance has allowed the token - not an abort)
                    let refused_up_front = p.denom.starts_with("cw20:") && !pre.allow.contains_key(&p.denom[5..]) && pre.default_gas.is_none();
                    if refused_up_front {
                        h.out.count("ack_or_timeout_refused_token_not_payable_yet");
                    }
                    if prop == "C12" && !w.afflicted.contains(&k) && !refused_up_front {
                        h.violate(
                            &format!("C12/ack/{kind}/handling-of-a-genuine-failure-aborted"),
                            format!("{kind} of packet seq {} ({} {} on {}) was refused: {} - the send has failed but stays outstanding", p.seq, p.amount, p.denom, p.channel, r.err_text()),
                        );
                        return false;
                    }
                }
            }
            Op::Allow { .. } | Op::UpdateAdmin { .. } | Op::Migrate { .. } | Op::Fault { .. } => {}
            _ => {}
        }

        // =========== C12: books = ledger; error ack changes nothing ===========
        if prop == "C12" {
            let keys: BTreeSet<(String, String)> = post.chan.keys().cloned().chain(w.sent.keys().cloned()).collect();
            for k in keys {
                if w.afflicted.contains(&k) || w.surplus_booked.contains(&k) {
                    continue;
                }
                let got = post.chan.get(&k).map(|x| x.0).unwrap_or(0) as i128;
                let want = w.model_outstanding(&k);
                h.out.oracle_checks += 1;
                if got != want {
                    h.violate(
                        &format!("C12/books/{kind}/outstanding-differs-from-ledger"),
                        format!(
                            "channel {} denom {}: reported outstanding {got}, ledger sent {} - failed/timed-out {} - redeemed {} = {want}",
                            k.0,
                            k.1,
                            w.sent.get(&k).unwrap_or(&0),
                            w.failed.get(&k).unwrap_or(&0),
                            w.redeemed.get(&k).unwrap_or(&0)
                        ),
                    );
                    return false;
                }
            }
            if is_receive && ack == Some(false) {
                // everything exactly as before the packet
                let same = pre.chan == post.chan && pre.holdings == post.holdings && pre.users == post.users;
                h.out.count("error_acks_checked_for_no_change");
                if !same {
                    let what = if pre.chan != post.chan { "channel-balance" } else if pre.holdings != post.holdings { "escrow" } else { "user-balances" };
                    let sig = if pre.chan != post.chan && w.migrated_from == Some("v1") {
                        "C12/receive/error-ack-after-state-change/allow-list-check-after-reduce".to_string()
                    } else {
                        format!("C12/receive/error-ack-changed-{what}")
                    };
                    h.violate(&sig, format!("error acknowledgement but state changed: channel balances {:?} -> {:?}", pre.chan, post.chan));
                    return false;
                }
            }
            if is_receive && ack == Some(true) {
                // balance reduced by exactly the amount on exactly this (channel, denom)
                h.out.count("success_acks_checked");
            }
        }

        // =========== C11: solvency ===========
        if prop == "C11" {
            for t in w.tokens() {
                let d = t.denom();
                let total_out: u128 = post.chan.iter().filter(|(k, _)| k.1 == d).fold(0u128, |a, (_, v)| a.saturating_add(v.0));
                let held = *post.holdings.get(&t).unwrap_or(&0);
                h.out.oracle_checks += 1;
                if held < total_out {
                    h.violate(&format!("C11/solvency/{kind}/holdings-below-outstanding"), format!("token {d}: contract holds {held}, channels report {total_out} outstanding"));
                    return false;
                }
                // payouts during receive / ack / timeout are charged to the channel of the operation
                let h0 = *pre.holdings.get(&t).unwrap_or(&0);
                if held < h0 {
                    let dec = h0 - held;
                    match &this_channel {
                        Some(ch) if matches!(op, Op::ReturnVoucher { .. } | Op::Malicious { .. } | Op::AckError { .. } | Op::Timeout { .. }) => {
                            let k = (ch.clone(), d.clone());
                            *w.paid_out.entry(k.clone()).or_insert(0) += dec;
                            let paid = *w.paid_out.get(&k).unwrap_or(&0);
                            let esc = *w.escrowed.get(&k).unwrap_or(&0);
                            h.out.count("payouts_observed");
                            if !h.check(paid <= esc, &format!("C11/solvency/{kind}/paid-out-exceeds-escrowed-on-channel"), || {
                                format!("channel {ch} token {d}: paid out {paid} in total, only {esc} ever escrowed on this channel")
                            }) {
                                return false;
                            }
                        }
                        _ => {
                            h.violate(&format!("C11/solvency/{kind}/holdings-fell-outside-packet-handling"), format!("token {d}: {h0} -> {held} in {kind}"));
                            return false;
                        }
                    }
                }
            }
            if let Op::Malicious { denom, amount, channel, src_port, src_channel, garbage, .. } = op {
                // decide with own rules whether this packet may release anything
                let parts: Vec<&str> = denom.splitn(3, '/').collect();
                let well_formed = !*garbage && parts.len() == 3 && parts[0] == src_port && parts[1] == src_channel && *src_port == CP_PORT && w.cp_channel(channel) == *src_channel;
                let base = if parts.len() == 3 { parts[2].to_string() } else { String::new() };
                let outstanding = pre.chan.get(&(channel.clone(), base)).map(|x| x.0).unwrap_or(0);
                let may_release = well_formed && *amount <= outstanding;
                if !may_release {
                    h.out.count("malicious_packets_that_must_release_nothing");
                    if !h.check(ack != Some(true) && pre.holdings == post.holdings && pre.chan == post.chan, "C11/malicious/forbidden-packet-released-or-changed-state", || {
                        format!("packet denom {denom} amount {amount} from {src_port}/{src_channel} on {channel} (outstanding {outstanding}): ack {ack:?}, holdings {:?} -> {:?}", pre.holdings, post.holdings)
                    }) {
                        return false;
                    }
                    if *amount == outstanding.wrapping_add(1) {
                        h.out.count("malicious_redeem_one_over_outstanding_refused");
                    }
                }
            }
            if is_receive && ack == Some(false) {
                // a failed payout (or refused packet) leaves escrow untouched
                if !h.check(pre.holdings == post.holdings, "C11/receive/error-ack-but-holdings-changed", || format!("{:?} -> {:?}", pre.holdings, post.holdings)) {
                    return false;
                }
                h.out.count("error_acks_checked_for_untouched_escrow");
            }
        }

        // =========== C18: governance, monotonicity, gas limits on payouts ===========
        if prop == "C18" {
            let gov_changed = pre.allow != post.allow || pre.default_gas != post.default_gas || pre.admin != post.admin;
            let was_admin = pre.admin.as_deref() == Some(sender);
            if gov_changed {
                let legit = match op {
                    Op::Allow { .. } | Op::UpdateAdmin { .. } => ok && was_admin,
                    Op::Migrate { .. } => ok && sender == w.chain_admin,
                    _ => false,
                };
                if !h.check(legit, &format!("C18/governance/{kind}/changed-without-authority"), || {
                    format!("allow {:?}->{:?} default {:?}->{:?} admin {:?}->{:?} by {sender} (admin={was_admin}, ok={ok})", pre.allow, post.allow, pre.default_gas, post.default_gas, pre.admin, post.admin)
                }) {
                    return false;
                }
            }
            // only loosens
            for (c, g0) in &pre.allow {
                h.out.oracle_checks += 1;
                match post.allow.get(c) {
                    None => {
                        h.violate(&format!("C18/monotone/{kind}/allowed-token-removed"), format!("{c} disappeared from the allow list"));
                        return false;
                    }
                    Some(g1) => {
                        let fine = match (g0, g1) {
                            (None, None) => true,
                            (None, Some(_)) => false,
                            (Some(_), None) => true,
                            (Some(a), Some(b)) => b >= a,
                        };
                        if !fine {
                            h.violate(&format!("C18/monotone/{kind}/gas-limit-lowered"), format!("{c}: {g0:?} -> {g1:?}"));
                            return false;
                        }
                    }
                }
            }
            if pre.default_gas.is_some() && !h.check(post.default_gas.is_some(), &format!("C18/monotone/{kind}/default-gas-limit-unset"), || format!("{:?} -> {:?}", pre.default_gas, post.default_gas)) {
                return false;
            }
            match (op, ok) {
                (Op::Allow { contract, gas }, true) => {
                    h.out.count("allows_ok");
                    if !h.check(post.allow.get(contract) == Some(gas), "C18/allow/entry-differs-from-request", || format!("{contract}: requested {gas:?}, stored {:?}", post.allow.get(contract))) {
                        return false;
                    }
                    if pre.allow.contains_key(contract) {
                        h.out.count("allow_raises_ok");
                    }
                }
                (Op::Allow { contract, gas }, false) => {
                    if was_admin {
                        if let (Some(Some(a)), Some(b)) = (pre.allow.get(contract), gas) {
                            if b < a {
                                h.out.count("lowering_attempts_rejected");
                            }
                        }
                        if let (Some(None), Some(_)) = (pre.allow.get(contract), gas) {
                            h.out.count("limiting_unlimited_rejected");
                        }
                    } else {
                        h.out.count("non_gov_allow_rejected");
                        if sender == contract {
                            h.out.count("allow_by_the_named_token_itself_rejected");
                        }
                        if w.former_gov.iter().any(|f| f == sender) {
                            h.out.count("former_gov_allow_rejected");
                        }
                    }
                }
                (Op::UpdateAdmin { admin }, true) => {
                    h.out.count("gov_handovers_ok");
                    if let Some(a) = &pre.admin {
                        if a != admin && !w.former_gov.contains(a) {
                            w.former_gov.push(a.clone());
                        }
                    }
                }
                (Op::Migrate { default_gas }, true) => {
                    h.out.count("migrations_ok");
                    let want = default_gas.or(pre.default_gas);
                    if !h.check(post.default_gas == want, "C18/migrate/default-gas-limit-wrong", || format!("pre {:?} msg {default_gas:?} post {:?}", pre.default_gas, post.default_gas)) {
                        return false;
                    }
                }
                _ => {}
            }
            // every payout / refund sub-message carries the token's current limit, else the default
            if ok {
                for s in &subs {
                    let (is_cw20, target) = match &s.msg {
                        CosmosMsg::Wasm(WasmMsg::Execute { contract_addr, .. }) => (true, contract_addr.clone()),
                        CosmosMsg::Bank(BankMsg::Send { .. }) => (false, String::new()),
                        _ => continue,
                    };
                    if is_cw20 && !pre.allow.contains_key(&target) && pre.default_gas.is_none() {
                        h.out.oracle_checks += 1;
                        h.violate(
                            &format!("C18/payout/{kind}/issued-for-token-neither-allowed-nor-covered-by-default"),
                            format!("payout sub-call into {target}, which is not on the allow list, and no default gas limit is configured"),
                        );
                        return false;
                    }
                    let want = if is_cw20 {
                        match pre.allow.get(&target) {
                            Some(g) => *g,
                            None => pre.default_gas,
                        }
                    } else {
                        None
                    };
                    h.out.oracle_checks += 1;
                    if s.gas_limit != want {
                        h.violate(
                            &format!("C18/payout/{kind}/gas-limit-not-token-entry-or-default"),
                            format!("payout to {} carries gas_limit {:?}, allow entry {:?}, default {:?}", if is_cw20 { target.clone() } else { "bank".into() }, s.gas_limit, pre.allow.get(&target), pre.default_gas),
                        );
                        return false;
                    }
                    if is_cw20 {
                        h.out.count("cw20_payout_gas_limits_checked");
                        if !pre.allow.contains_key(&target) {
                            h.out.count("cw20_payouts_with_default_limit");
                        }
                    } else {
                        h.out.count("native_payouts_without_limit_checked");
                    }
                }
            }
        }
        *pre = post;
        true
    }

    /// put the contract into a legacy layout with tokens outstanding / in flight, migrate, continue
    fn legacy_and_migrate(&self, h: &mut Hist, w: &mut World, pre: &mut Snap, v1: bool) -> bool {
        self.legacy_and_migrate_with(h, w, pre, v1, None)
    }

    fn legacy_and_migrate_with(&self, h: &mut Hist, w: &mut World, pre: &mut Snap, v1: bool, forced_gas: Option<Option<u64>>) -> bool {
        let prop = self.prop;
        let ics = w.ics.clone();
        // in-flight amounts per (channel, denom)
        let mut inflight: BTreeMap<(String, String), u128> = BTreeMap::new();
        for p in &w.pending {
            *inflight.entry((p.channel.clone(), p.denom.clone())).or_insert(0) += p.amount;
        }
        let list: Vec<(String, String, Uint128)> = inflight.iter().map(|(k, v)| (k.0.clone(), k.1.clone(), Uint128::new(*v))).collect();
        let version = if v1 { *h.rng.pick(&["0.11.1", "0.12.0-alpha1"]) } else { *h.rng.pick(&["0.12.0", "0.13.0", "0.12.1"]) };
        let r = w.c.sudo(&ics, &ShimMsg::MakeV2 { version: version.to_string(), inflight: list });
        if !r.is_ok() {
            // the counterparty already redeemed tokens that are still in flight: such a history cannot have
            // happened under the old accounting (in-flight sends were not booked). Nothing was changed; go on
            // without an upgrade.
            h.out.count("histories_not_expressible_in_the_v2_layout");
            h.note(format!("v2 layout not synthesisable ({}), no migration in this history", r.err_text()));
            return true;
        }
        if v1 {
            let r = w.c.sudo(&ics, &ShimMsg::MakeV1 { version: version.to_string() });
            if !r.is_ok() {
                h.out.inconclusive = Some(format!("could not synthesise the v1 layout: {}", r.err_text()));
                return false;
            }
        }
        // denominations whose only sends are still in flight have no channel-state entry in the old layout
        for (k, v) in &inflight {
            let sent = *w.sent.get(k).unwrap_or(&0);
            let failed = *w.failed.get(k).unwrap_or(&0);
            let redeemed_or_acked = sent - v; // everything not in flight was acked (success or failure)
            let _ = failed;
            if redeemed_or_acked == 0 {
                w.afflicted.insert(k.clone());
            }
        }
        h.note(format!("storage rewritten to the {} layout, version {version}, in flight {inflight:?}", if v1 { "v1 (pre-allow-list)" } else { "v2" }));
        let default_gas = match forced_gas {
            Some(g) => g,
            None => {
                if h.rng.chance(1, 2) {
                    Some(h.rng.range(50_000, 500_000))
                } else {
                    None
                }
            }
        };
        w.migrated_from = Some(if v1 { "v1" } else { "v2" });
        let admin = w.chain_admin.clone();
        let legacy_default_gas = if v1 { None } else { pre.default_gas };
        let code = w.c.codes.ics20;
        let r = w.c.migrate(&admin, &ics, &MigrateMsg { default_gas_limit: default_gas }, code);
        h.out.evaluations += 1;
        h.note(format!("migrate(default_gas_limit={default_gas:?}) => {} {}", r.class(), r.err_text()));
        if w.channels.len() > 1 {
            if !r.is_ok() {
                // holdings cannot be attributed to channels: refusing is the safe answer; the history ends here
                h.out.count("migrations_refused_with_several_channels");
                return false;
            }
            h.out.count("migrations_accepted_with_several_channels");
        }
        if !r.is_ok() {
            h.violate(&format!("{prop}/migrate/supported-upgrade-path-failed"), format!("migrate from {version} failed: {}", r.err_text()));
            return false;
        }
        h.out.count(if v1 { "migrations_from_v1" } else { "migrations_from_v2" });
        let Some(post) = w.snap(h, prop) else {
            return false;
        };
        if prop == "C18" {
            // v1 had no allow list: after migration the list is empty, the admin is the old gov contract
            if v1 && !h.check(post.admin == pre.admin, "C18/migrate/admin-not-carried-over", || format!("{:?} -> {:?}", pre.admin, post.admin)) {
                return false;
            }
            if !h.check(post.default_gas == default_gas.or(legacy_default_gas), "C18/migrate/default-gas-limit-wrong", || format!("{:?}", post.default_gas)) {
                return false;
            }
            // an upgrade is not governance: it allows nothing and changes no limit (the pre-allow-list format has no list)
            let want: BTreeMap<String, Option<u64>> = if v1 { BTreeMap::new() } else { pre.allow.clone() };
            h.out.count("allow_lists_compared_across_an_upgrade");
            if !h.check(post.allow == want, "C18/migrate/allow-list-changed-by-the-upgrade", || format!("allow list after migrating from {version}: {:?}, expected {want:?}", post.allow)) {
                return false;
            }
        }
        if prop == "C12" {
            // books after migration: every (channel, denom) equals the ledger again (sent accounting)
            let keys: BTreeSet<(String, String)> = post.chan.keys().cloned().chain(w.sent.keys().cloned()).collect();
            for k in keys {
                let got = post.chan.get(&k).map(|x| x.0).unwrap_or(0) as i128;
                let want = w.model_outstanding(&k);
                if got != want {
                    if w.afflicted.contains(&k) {
                        h.violate_continue(
                            "C12/migrate-v2/in-flight-denom-without-channel-state",
                            format!("after migrating from {version}: channel {} denom {} reports {got}, but {want} were sent and are still in flight (no channel-state entry existed, so the migration skipped it)", k.0, k.1),
                        );
                    } else if w.self_paid.get(&k).map(|s| *s > 0 && got - want == *s as i128).unwrap_or(false) {
                        // the legacy migration books whatever the contract holds beyond the recorded outstanding amount as
                        // "in flight": tokens the contract once paid out to its own address are such holdings
                        h.violate_continue(
                            "C12/migrate-v2/own-holdings-booked-as-in-flight",
                            format!("after migrating from {version}: channel {} denom {} reports {got}, ledger {want}; the difference {} is what the contract had paid to its own address in redemptions (it holds them, nobody sent them)", k.0, k.1, got - want),
                        );
                        w.surplus_booked.insert(k.clone());
                        w.self_paid.remove(&k);
                    } else {
                        h.violate("C12/migrate/outstanding-differs-from-ledger-after-migration", format!("channel {} denom {}: reported {got}, ledger {want}", k.0, k.1));
                        return false;
                    }
                } else {
                    w.afflicted.remove(&k);
                }
            }
        }
        *pre = post;
        true
    }
}

enum Act {
    Do(usize, Op),
    Relay(Op),
    /// ack(success) / ack(error) / timeout for the oldest pending packet
    AckOk,
    AckErr,
    Tmo,
    Legacy { v1: bool, default_gas: Option<u64> },
    /// the bank credits a user with coins of some denomination
    Fund { user: usize, denom: String, amount: u128 },
    Fault { flaky: bool, bank: bool },
    Adv,
}

impl Ics {
    fn play(&self, h: &mut Hist, fixed: (Vec<(usize, Option<u64>)>, Option<u64>), script: Vec<Act>) {
        self.play_on(h, fixed, script, None)
    }

    fn play_on(&self, h: &mut Hist, fixed: (Vec<(usize, Option<u64>)>, Option<u64>), script: Vec<Act>, two_colliding: Option<bool>) {
        let Some(mut w) = self.setup_with(h, true, Some(fixed), two_colliding) else {
            h.out.inconclusive = Some("directed ics20 scenario could not be set up".into());
            return;
        };
        let Some(mut pre) = w.snap(h, self.prop) else {
            return;
        };
        for a in script {
            let (sender, op) = match a {
                Act::Do(i, op) => (w.users[i].clone(), op),
                Act::Relay(op) => ("relayer".to_string(), op),
                Act::AckOk => ("relayer".to_string(), Op::AckSuccess { idx: 0 }),
                Act::AckErr => ("relayer".to_string(), Op::AckError { idx: 0 }),
                Act::Tmo => ("relayer".to_string(), Op::Timeout { idx: 0 }),
                Act::Fault { flaky, bank } => (w.chain_admin.clone(), Op::Fault { flaky, bank }),
                Act::Adv => {
                    w.c.advance(1, 6);
                    continue;
                }
                Act::Fund { user, denom, amount } => {
                    let u = w.users[user].clone();
                    w.c.fund(&u, amount, &denom);
                    continue;
                }
                Act::Legacy { v1, default_gas } => {
                    if !self.legacy_and_migrate_with(h, &mut w, &mut pre, v1, Some(default_gas)) {
                        return;
                    }
                    continue;
                }
            };
            if matches!(op, Op::AckSuccess { .. } | Op::AckError { .. } | Op::Timeout { .. }) && w.pending.is_empty() {
                continue;
            }
            let op = match op {
                Op::ReturnVoucher { channel, denom, amount, receiver } => {
                    let denom = match denom.strip_prefix("@cw20:") {
                        Some(i) => format!("cw20:{}", w.cw20s[i.parse::<usize>().unwrap()]),
                        None => denom,
                    };
                    let receiver = match receiver.strip_prefix("@user:") {
                        Some(i) => w.users[i.parse::<usize>().unwrap()].clone(),
                        None => receiver,
                    };
                    Op::ReturnVoucher { channel, denom, amount, receiver }
                }
                Op::Malicious { channel, denom, amount, receiver, src_port, src_channel, garbage } => {
                    let receiver = match receiver.strip_prefix("@user:") {
                        Some(i) => w.users[i.parse::<usize>().unwrap()].clone(),
                        None => receiver,
                    };
                    Op::Malicious { channel, denom, amount, receiver, src_port, src_channel, garbage }
                }
                o => o,
            };
            if !self.step(h, &mut w, &mut pre, &sender, &op) {
                return;
            }
        }
        h.out.count("directed_scenarios_completed");
    }

    fn directed(&self, h: &mut Hist) -> bool {
        let ch = "channel-1".to_string();
        let nat = |amount: u128| Op::TransferNative { channel: "channel-1".into(), denom: "uatom".into(), amount, extra_coin: false, timeout: None, memo: None };
        let cw = |token: usize, amount: u128| Op::TransferCw20 { token, channel: "channel-1".into(), amount, timeout: Some(60), memo: Some("m".into()) };
        match (self.prop, h.idx) {
            // pre-allow-list contract with cw20 vouchers outstanding, migrated without a default gas limit
            ("C12", 0) | ("C18", 0) => {
                // token addresses are only known after setup: the voucher denom is filled in by `Relay` below through w.remote
                self.play(
                    h,
                    (vec![(0, None)], None),
                    vec![
                        Act::Do(0, cw(0, 300)),
                        Act::AckOk,
                        Act::Do(1, nat(700)),
                        Act::AckOk,
                        Act::Adv,
                        Act::Legacy { v1: true, default_gas: None },
                        // the remote side returns 100 of the cw20 vouchers: the token is no longer on any allow list
                        Act::Relay(Op::ReturnVoucher { channel: ch.clone(), denom: "@cw20:0".into(), amount: 100, receiver: "@user:1".into() }),
                        Act::Relay(Op::ReturnVoucher { channel: ch.clone(), denom: "uatom".into(), amount: 200, receiver: "@user:2".into() }),
                        Act::Do(0, cw(0, 5)),
                        Act::Do(0, nat(5)),
                        Act::AckErr,
                    ],
                );
                true
            }
            // more denominations on one channel than any page holds: each one's outstanding amount must stay visible
            ("C12", 6) => {
                let mut script = vec![];
                for i in 0..37u128 {
                    let denom = format!("utoken{i:02}");
                    script.push(Act::Fund { user: 0, denom: denom.clone(), amount: 5_000 });
                    script.push(Act::Do(0, Op::TransferNative { channel: "channel-1".into(), denom, amount: 1_000 + i, extra_coin: false, timeout: None, memo: None }));
                    if i % 3 == 0 {
                        script.push(Act::AckOk);
                    }
                }
                script.push(Act::Tmo);
                script.push(Act::Relay(Op::ReturnVoucher { channel: ch.clone(), denom: "utoken36".into(), amount: 36, receiver: "@user:2".into() }));
                self.play(h, (vec![(0, None)], None), script);
                h.out.count("channels_with_more_than_30_denominations");
                true
            }
            // v2 layout with a denomination whose only packet is still in flight
            ("C12", 3) => {
                self.play(
                    h,
                    (vec![(0, Some(100_000)), (1, None)], Some(200_000)),
                    vec![
                        Act::Do(0, nat(400)),
                        Act::AckOk,
                        Act::Do(0, nat(50)),     // in flight, denom already has a channel-state entry
                        Act::Do(1, cw(0, 900)),  // in flight, denom has no entry in the old layout
                        Act::Adv,
                        Act::Legacy { v1: false, default_gas: None },
                        Act::Tmo,
                        Act::Tmo,
                        Act::Relay(Op::ReturnVoucher { channel: ch.clone(), denom: "uatom".into(), amount: 400, receiver: "@user:2".into() }),
                    ],
                );
                true
            }
            // two channels whose remote ids collide with each other's local ids; a failed payout on one
            // of them must be rolled back on that same channel
            ("C11", 1) | ("C12", 9) => {
                let natc = |c: &str, amount: u128| Op::TransferNative { channel: c.into(), denom: "uatom".into(), amount, extra_coin: false, timeout: None, memo: None };
                self.play_on(
                    h,
                    (vec![(0, None)], None),
                    vec![
                        Act::Do(0, natc("channel-1", 100)),
                        Act::AckOk,
                        Act::Do(1, natc("channel-2", 60)),
                        Act::AckOk,
                        Act::Fault { flaky: false, bank: true },
                        Act::Relay(Op::ReturnVoucher { channel: "channel-1".into(), denom: "uatom".into(), amount: 100, receiver: "@user:2".into() }),
                        Act::Fault { flaky: false, bank: false },
                        // the counterparty of channel-2 now tries to redeem whatever channel-2 reports
                        Act::Relay(Op::Malicious { channel: "channel-2".into(), denom: "transfer/channel-1/uatom".into(), amount: 160, receiver: "@user:2".into(), src_port: CP_PORT.into(), src_channel: "channel-1".into(), garbage: false }),
                        Act::Relay(Op::Malicious { channel: "channel-2".into(), denom: "transfer/channel-1/uatom".into(), amount: 61, receiver: "@user:2".into(), src_port: CP_PORT.into(), src_channel: "channel-1".into(), garbage: false }),
                        Act::Relay(Op::ReturnVoucher { channel: "channel-2".into(), denom: "uatom".into(), amount: 60, receiver: "@user:2".into() }),
                        Act::Relay(Op::ReturnVoucher { channel: "channel-1".into(), denom: "uatom".into(), amount: 100, receiver: "@user:2".into() }),
                    ],
                    Some(true),
                );
                true
            }
            // two channels, one of them holding the denomination only through a packet still in flight, then an
            // upgrade from a v2-layout release: holdings cannot be attributed to channels (the migration refuses);
            // were it accepted, channel-1 must still not pay out more than was escrowed on it
            ("C11", 2) | ("C12", 12) => {
                let natc = |c: &str, amount: u128| Op::TransferNative { channel: c.into(), denom: "uatom".into(), amount, extra_coin: false, timeout: None, memo: None };
                self.play_on(
                    h,
                    (vec![(0, None)], None),
                    vec![
                        Act::Do(0, natc("channel-1", 100)),
                        Act::AckOk,
                        Act::Do(1, natc("channel-2", 50)),
                        Act::Adv,
                        Act::Legacy { v1: false, default_gas: None },
                        Act::Relay(Op::ReturnVoucher { channel: "channel-1".into(), denom: "uatom".into(), amount: 150, receiver: "@user:2".into() }),
                        Act::Relay(Op::ReturnVoucher { channel: "channel-1".into(), denom: "uatom".into(), amount: 101, receiver: "@user:2".into() }),
                        Act::AckOk,
                        Act::Relay(Op::ReturnVoucher { channel: "channel-2".into(), denom: "uatom".into(), amount: 50, receiver: "@user:2".into() }),
                    ],
                    Some(true),
                );
                true
            }
            // two colliding channels; a packet sent on channel-1 times out while the refund cannot be paid:
            // whatever the failed refund leaves behind belongs to channel-1, never to channel-2
            ("C11", 3) | ("C12", 15) => {
                let natc = |c: &str, amount: u128| Op::TransferNative { channel: c.into(), denom: "uatom".into(), amount, extra_coin: false, timeout: None, memo: None };
                self.play_on(
                    h,
                    (vec![(0, None)], None),
                    vec![
                        Act::Do(1, natc("channel-2", 400)),
                        Act::AckOk,
                        Act::Do(0, natc("channel-1", 1000)),
                        Act::Fault { flaky: false, bank: true },
                        Act::Tmo,
                        Act::Fault { flaky: false, bank: false },
                        Act::Relay(Op::Malicious { channel: "channel-2".into(), denom: "transfer/channel-1/uatom".into(), amount: 1400, receiver: "@user:2".into(), src_port: CP_PORT.into(), src_channel: "channel-1".into(), garbage: false }),
                        Act::Relay(Op::Malicious { channel: "channel-2".into(), denom: "transfer/channel-1/uatom".into(), amount: 401, receiver: "@user:2".into(), src_port: CP_PORT.into(), src_channel: "channel-1".into(), garbage: false }),
                        Act::Relay(Op::ReturnVoucher { channel: "channel-2".into(), denom: "uatom".into(), amount: 400, receiver: "@user:2".into() }),
                    ],
                    Some(true),
                );
                true
            }
            // failing payouts and refunds
            ("C12", 6) | ("C11", 0) => {
                self.play(
                    h,
                    (vec![(0, Some(100_000)), (1, None)], None),
                    vec![
                        Act::Do(0, cw(1, 1000)),
                        Act::AckOk,
                        Act::Do(0, nat(1000)),
                        Act::AckOk,
                        Act::Fault { flaky: true, bank: true },
                        Act::Relay(Op::ReturnVoucher { channel: ch.clone(), denom: "@cw20:1".into(), amount: 400, receiver: "@user:1".into() }),
                        Act::Relay(Op::ReturnVoucher { channel: ch.clone(), denom: "uatom".into(), amount: 400, receiver: "@user:1".into() }),
                        Act::Fault { flaky: false, bank: false },
                        Act::Relay(Op::ReturnVoucher { channel: ch.clone(), denom: "@cw20:1".into(), amount: 400, receiver: "not-a-valid-address".into() }),
                        Act::Relay(Op::ReturnVoucher { channel: ch.clone(), denom: "@cw20:1".into(), amount: 1000, receiver: "@user:1".into() }),
                        Act::Relay(Op::ReturnVoucher { channel: ch.clone(), denom: "uatom".into(), amount: 1000, receiver: "@user:2".into() }),
                        Act::Relay(Op::ReturnVoucher { channel: ch.clone(), denom: "uatom".into(), amount: 1, receiver: "@user:2".into() }),
                        Act::Do(2, nat(77)),
                        Act::Fault { flaky: false, bank: true },
                        Act::Tmo,
                        Act::Fault { flaky: false, bank: false },
                    ],
                );
                true
            }
            _ => false,
        }
    }
}

impl Monitor for Ics {
    fn id(&self) -> &'static str {
        self.prop
    }
    fn engine(&self) -> &'static str {
        "cwv-app"
    }
    fn histories(&self, tier: Tier) -> u64 {
        match self.prop {
            "C12" => tier.pick(800, 36_000),
            _ => tier.pick(800, 48_000),
        }
    }
    fn mandatory(&self) -> Vec<&'static str> {
        match self.prop {
            "C11" => vec![
                "migrations_refused_with_several_channels",
                "migrations_from_v2",
                "native_transfers_with_cw20_prefixed_denom_rejected",
                "directed_scenarios_completed",
                "transfers_accepted",
                "receives_acked_success",
                "receives_acked_error",
                "receives_with_failed_payout",
                "malicious_packets_refused",
                "malicious_packets_that_must_release_nothing",
                "malicious_redeem_one_over_outstanding_refused",
                "acks_error_processed",
                "timeouts_processed",
                "payouts_observed",
                "error_acks_checked_for_untouched_escrow",
            ],
            "C12" => vec![
                "directed_scenarios_completed",
                "transfers_accepted",
                "receives_acked_success",
                "receives_acked_error",
                "receives_with_failed_payout",
                "honest_returns_addressed_to_the_contract_itself",
                "channels_with_more_than_30_denominations",
                "error_acks_checked_for_no_change",
                "acks_success_processed",
                "acks_error_processed",
                "timeouts_processed",
                "packets_with_default_timeout",
                "packets_with_memo",
                "transfers_above_u64_rejected",
                "migrations_from_v1",
                "migrations_from_v2",
            ],
            _ => vec![
                "directed_scenarios_completed",
                "allows_ok",
                "allow_raises_ok",
                "lowering_attempts_rejected",
                "limiting_unlimited_rejected",
                "non_gov_allow_rejected",
                "allow_by_the_named_token_itself_rejected",
                "former_gov_allow_rejected",
                "gov_handovers_ok",
                "migrations_ok",
                "allow_lists_compared_across_an_upgrade",
                "cw20_transfers_accepted",
                "cw20_transfers_rejected_not_allowed",
                "cw20_payout_gas_limits_checked",
                "cw20_payouts_with_default_limit",
                "native_payouts_without_limit_checked",
            ],
        }
    }
    fn rule(&self) -> &'static str {
        match self.prop {
            "C11" => "seeded random histories on cw20-ics20 inside a cw-multi-test App (real bank, three real cw20-base tokens, one behind a fault-injecting wrapper) with 2-3 channels; the IBC shim forwards to the real ibc_* entry points and cw-multi-test runs the payout sub-messages and the real reply. User transfers (bank and cw20 Send), direct Receive calls, honest voucher returns and MALICIOUS incoming packets (foreign denom, other port/channel prefix, amount above outstanding, garbage, unknown channel), one ack(success|error) or timeout per sent packet in random order, payout faults (bad receiver, failing cw20, failing bank). After every step real holdings are compared with the sum of reported channel balances and a per-channel escrowed/paid-out ledger. Every third history is put into a legacy storage layout and upgraded through the real migrate (every fourth of those with several channels, which the migration must refuse or else keep per-channel solvency); native denoms include case variants of the cw20 encoding (CW20:<token>) and a factory denom containing it. distinct = (operation, outcome, ack kind, cw20 fault on?, bank fault on?, default gas set?, migrated from)",
            "C12" => "same world with an HONEST counterparty (returns only vouchers it holds). A per-(channel, denom) ledger sent / failed-or-timed-out / redeemed is compared with Channel{id} after every step; every error acknowledgement is checked to leave channel balances, escrow and all user balances untouched; every accepted transfer's recorded IbcMsg::SendPacket is decoded and compared (amount, denom, true sender, receiver, memo, timeout). Every third history rewrites the storage into the v1 (pre-allow-list) or v2 layout with tokens outstanding and in flight, runs the real migrate and continues. distinct = (operation, outcome, ack kind, cw20 fault on?, bank fault on?, default gas set?, migrated from)",
            _ => "same world with a governance-heavy op mix: Allow (new, raise, equal, lower, limit-an-unlimited, bad address) and UpdateAdmin by governance, former governance and strangers, migrate with/without default gas limit by the chain admin and strangers, cw20 transfers of listed and unlisted tokens, redemptions and refunds. ListAllowed/Config/Admin are compared before/after every step and the gas_limit of every payout sub-message logged by the shim is compared with the token's entry or the default. distinct = (operation, outcome, ack kind, cw20 fault on?, bank fault on?, default gas set?, migrated from)",
        }
    }
    fn assumptions(&self) -> Vec<&'static str> {
        vec![
            "IBC core delivers exactly one acknowledgement or timeout per sent packet (relayer model)",
            "cw-multi-test dispatch / reply / data-override semantics stand in for wasmd; gas is not metered (the limit attached to each payout is checked, not its enforcement)",
            "legacy layouts are synthesised from the repo's own migrations.rs description (v1: ics20_config{default_timeout,gov_contract}, no admin/allow list; v2: balances count only acknowledged sends)",
            "only genuine tokens (bank denoms, deployed cw20-base instances) are judged for solvency",
        ]
    }
    fn run_history(&self, h: &mut Hist) {
        if self.directed(h) {
            return;
        }
        let upgrade = matches!(self.prop, "C11" | "C12" | "C18") && h.idx % 3 == 0;
        // every fourth upgrade world has whatever number of channels the generator picks: the v2 step of
        // the migration cannot attribute holdings to channels there (it refuses; if it ever accepts, the
        // per-channel rules keep judging the history)
        let several = matches!(self.prop, "C11" | "C12") && h.idx % 12 == 9;
        let Some(mut w) = self.setup(h, upgrade && !several) else {
            return;
        };
        let Some(mut pre) = w.snap(h, self.prop) else {
            return;
        };
        let n = h.tier.pick(60, 100);
        let migrate_at = if upgrade { h.rng.range(8, 30) as usize } else { usize::MAX };
        let v1 = h.idx % 6 == 0;
        for i in 0..n {
            if h.rng.chance(1, 2) {
                w.c.advance(1, h.rng.range(1, 10));
            }
            if i == migrate_at {
                if !self.legacy_and_migrate(h, &mut w, &mut pre, v1) {
                    return;
                }
                continue;
            }
            let (sender, mut op) = self.gen_op(h, &w, &pre);
            if upgrade && i < migrate_at && matches!(op, Op::Fault { .. } | Op::DirectReceive { .. }) {
                // the synthesised legacy layout assumes holdings == books at migration time
                op = Op::TransferNative { channel: w.channels[0].0.clone(), denom: "uatom".into(), amount: 1 + h.rng.below(2000) as u128, extra_coin: false, timeout: None, memo: None };
            }
            if !self.step(h, &mut w, &mut pre, &sender, &op) {
                return;
            }
        }
    }
}

//! C13 — cw20: only the current minter mints, and never beyond the cap.

use crate::core::{Hist, Monitor, Tier};
use crate::cw20w::*;
use crate::direct::Res;

pub struct C13;

struct Model {
    minter: Option<String>,
    cap: Option<u128>,
    renounced: bool,
    former: Vec<String>,
}

impl C13 {
    fn step(&self, h: &mut Hist, c: &mut Cw20, m: &mut Model, pre: &mut Snap, sender: &str, op: &Op) -> bool {
        let r = c.exec(sender, op);
        log_op(h, c, sender, op, &r);
        h.out.evaluations += 1;
        if let Res::Abort(_) = &r {
            h.out.abort(&crate::direct::last_panic_site());
        }
        let post = c.snap(false);
        let kind = op.kind();
        let ok = r.is_ok();
        {
            // the client-side helpers of packages/cw20 report the same minter, cap and supply
            let via_m = c.via_helper(|t, q| t.minter(q)).map(|m| m.map(|m| (m.minter, m.cap.map(|c| c.u128()))));
            let via_s = c.via_helper(|t, q| t.meta(q)).map(|i| i.total_supply.u128());
            h.out.oracle_checks += 1;
            if via_m != Some(post.minter.clone()) || via_s != Some(post.supply) {
                h.violate("C13/query/package-helper-differs-from-queries", format!("Cw20Contract::minter {via_m:?} / meta.total_supply {via_s:?}, queries say {:?} / {}", post.minter, post.supply));
                return false;
            }
        }
        let is_minter = m.minter.as_deref() == Some(sender);
        let is_former = m.former.iter().any(|f| f == sender) && !is_minter;
        let caller_class = if is_minter { 0 } else if is_former { 1 } else { 2 };
        let room_class = match (op, m.cap) {
            (Op::Mint { amt, .. }, Some(cap)) => {
                let room = cap.saturating_sub(pre.supply);
                if *amt < room { 0 } else if *amt == room { 1 } else { 2 }
            }
            (Op::Mint { .. }, None) => 3,
            _ => 9,
        };
        h.out.distinct(&(kind, r.class(), caller_class, room_class, m.renounced, m.cap.is_some()));
        h.out.state(&(m.minter.is_some(), m.cap.is_some(), m.cap.map(|c| c == post.supply), m.former.len()));

        // supply rises only in a successful Mint by the model minter within the cap
        if post.supply > pre.supply {
            let good = ok && matches!(op, Op::Mint { .. }) && is_minter;
            if !h.check(good, &format!("C13/mint/{kind}/supply-rose-without-minter-mint"), || {
                format!("supply {} -> {} in {kind} by {sender} (model minter {:?})", pre.supply, post.supply, m.minter)
            }) {
                return false;
            }
        }
        // tokens in circulation (sum of the balances of every listed account) are created only by such a Mint too,
        // by exactly its amount, and never beyond the cap - whatever the supply counter says
        let circ = |s: &Snap| s.bal.values().fold(0u128, |a, b| a.saturating_add(*b));
        let (c0, c1) = (circ(pre), circ(&post));
        h.out.oracle_checks += 1;
        if c1 > c0 {
            let good = ok && is_minter && matches!(op, Op::Mint { amt, .. } if c1 - c0 == *amt);
            if !h.check(good, &format!("C13/mint/{kind}/tokens-created-without-minter-mint"), || {
                format!("sum of balances {c0} -> {c1} in {kind} by {sender} (ok={ok}, model minter {:?})", m.minter)
            }) {
                return false;
            }
        }
        if let Some(cap) = m.cap {
            if !h.check(c1 <= cap || c1 <= c0, &format!("C13/cap/{kind}/circulation-above-cap"), || format!("sum of balances {c1} above cap {cap}")) {
                return false;
            }
        }
        if let Op::Mint { amt, .. } = op {
            if ok {
                h.out.count("mints_ok");
                if !h.check(is_minter, "C13/mint/accepted-from-non-minter", || {
                    format!("Mint by {sender} accepted, model minter is {:?}", m.minter)
                }) {
                    return false;
                }
                if let Some(cap) = m.cap {
                    let within = pre.supply.checked_add(*amt).map(|s| s <= cap).unwrap_or(false);
                    if !h.check(within, "C13/mint/accepted-beyond-cap", || {
                        format!("Mint of {amt} accepted with supply {} and cap {cap}", pre.supply)
                    }) {
                        return false;
                    }
                    if pre.supply.checked_add(*amt) == Some(cap) {
                        h.out.count("mints_of_exactly_the_room_ok");
                    }
                }
                if !h.check(post.supply == pre.supply.wrapping_add(*amt), "C13/mint/supply-not-raised-by-amount", || {
                    format!("Mint {amt}: supply {} -> {}", pre.supply, post.supply)
                }) {
                    return false;
                }
            } else {
                if is_former {
                    h.out.count("former_minter_mint_rejected");
                }
                if !is_minter {
                    h.out.count("non_minter_mint_rejected");
                }
                if let (true, Some(cap)) = (is_minter, m.cap) {
                    if pre.supply.checked_add(*amt).map(|s| Some(s) == cap.checked_add(1)).unwrap_or(false) {
                        h.out.count("mints_one_over_the_room_rejected");
                    }
                }
            }
            if m.renounced {
                h.out.count("mint_after_renounce_attempts");
                if !h.check(!ok, "C13/renounce/mint-after-renounce-accepted", || {
                    format!("Mint by {sender} accepted after the minter role was renounced")
                }) {
                    return false;
                }
            }
        }
        if let Op::UpdateMinter { new } = op {
            let new_valid = match new {
                None => true,
                Some(a) => pool().actors.contains(a) || *a == c.w.contract.to_string(),
            };
            if ok {
                if !h.check(is_minter, "C13/update_minter/accepted-from-non-minter", || {
                    format!("UpdateMinter by {sender} accepted, model minter is {:?}", m.minter)
                }) {
                    return false;
                }
                if !h.check(!m.renounced, "C13/renounce/update-minter-after-renounce-accepted", || {
                    "UpdateMinter accepted after renounce".into()
                }) {
                    return false;
                }
                if let Some(old) = m.minter.take() {
                    if !m.former.contains(&old) {
                        m.former.push(old);
                    }
                }
                match new {
                    Some(a) => {
                        m.minter = Some(a.clone());
                        h.out.count("handovers_ok");
                        if m.former.contains(a) {
                            h.out.count("handover_back_to_a_former_minter");
                        }
                    }
                    None => {
                        m.minter = None;
                        m.renounced = true;
                        h.out.count("renounces_ok");
                    }
                }
            } else {
                if is_minter && new_valid && !m.renounced {
                    h.violate(
                        "C13/update_minter/current-minter-refused",
                        format!("UpdateMinter({new:?}) by the current minter {sender} failed: {}", r.err_text()),
                    );
                    return false;
                }
                if is_former {
                    h.out.count("former_minter_update_rejected");
                }
            }
            if m.renounced && !ok {
                h.out.count("update_minter_after_renounce_rejected");
            }
        }
        // Minter query equals the model; the cap never changes
        let want = m.minter.clone().map(|a| (a, m.cap));
        if !h.check(post.minter == want, &format!("C13/query/{kind}/minter-or-cap-differs-from-model"), || {
            format!("Minter query {:?}, model {:?}", post.minter, want)
        }) {
            return false;
        }
        if let Some(cap) = m.cap {
            if !h.check(post.supply <= cap, &format!("C13/cap/{kind}/supply-above-cap"), || {
                format!("supply {} exceeds cap {cap}", post.supply)
            }) {
                return false;
            }
        }
        if matches!(op, Op::Burn { .. } | Op::BurnFrom { .. }) && ok && m.cap.is_some() {
            h.out.count("burns_reopening_room");
        }
        *pre = post;
        true
    }
}

impl Monitor for C13 {
    fn id(&self) -> &'static str {
        "C13"
    }
    fn engine(&self) -> &'static str {
        "cwv-direct"
    }
    fn histories(&self, tier: Tier) -> u64 {
        tier.pick(3_000, 480_000)
    }
    fn mandatory(&self) -> Vec<&'static str> {
        vec![
            "mints_ok",
            "minter_calls_tried_by_the_migration_admin",
            "burns_through_an_allowance_above_the_balance_tried",
            "mints_of_exactly_the_room_ok",
            "mints_one_over_the_room_rejected",
            "non_minter_mint_rejected",
            "former_minter_mint_rejected",
            "handovers_ok",
            "handover_back_to_a_former_minter",
            "renounces_ok",
            "mint_after_renounce_attempts",
            "update_minter_after_renounce_rejected",
            "burns_reopening_room",
            "instantiate_without_minter",
            "instantiate_cap_equals_supply",
            "migrations_run",
            "tokens_with_more_than_ten_holders",
        ]
    }
    fn rule(&self) -> &'static str {
        "seeded random histories over the five instantiate shapes (no minter / minter without cap / cap at, above, below the initial supply) with a minter-heavy op mix (Mint, UpdateMinter incl. to self, to former minters, to None, Burn re-opening room); after every call Minter and TokenInfo are compared with an independent (minter, cap, renounced) model, and the sum of the balances of every listed account may rise only by such a Mint, by exactly its amount, never above the cap; every fourth history is upgraded through the real migrate from an old version string, half of those on tokens with 11-45 extra holders: minter, cap and supply must survive. distinct = (operation kind, outcome, caller class minter/former/stranger, amount vs room below/equal/above/uncapped, renounced?, capped?)"
    }
    fn assumptions(&self) -> Vec<&'static str> {
        vec!["only executed histories are judged", "MockApi address validation is trusted"]
    }
    fn run_history(&self, h: &mut Hist) {
        let mut c = Cw20::new(&mut h.rng);
        let hostile = h.rng.chance(1, 4);
        let mut cfg = gen_init(&mut h.rng, !hostile);
        if h.idx % 8 == 7 {
            // a token with more holders than one listing page (the history migrates later)
            let n = h.rng.range(11, 45) as usize;
            add_holders(&mut h.rng, &mut cfg, n);
            h.out.count("tokens_with_more_than_ten_holders");
        }
        let r = c.instantiate(&cfg);
        h.note(format!("instantiate {:?} => {}", cfg, r.class()));
        h.out.evaluations += 1;
        let sum: Option<u128> = cfg.balances.iter().try_fold(0u128, |s, (_, x)| s.checked_add(*x));
        if !r.is_ok() {
            h.out.count("instantiate_rejected");
            return;
        }
        // accepted: cap (if any) is not below the initial supply
        if let (Some((_, Some(cap))), None) = (&cfg.mint, sum) {
            // the initial balances do not even fit 128 bits: certainly above any cap
            h.violate("C13/instantiate/accepted-with-supply-above-cap", format!("instantiate accepted with initial balances summing beyond 2^128 and cap {cap}"));
            return;
        }
        if let (Some((_, Some(cap))), Some(sum)) = (&cfg.mint, sum) {
            if !h.check(sum <= *cap, "C13/instantiate/accepted-with-supply-above-cap", || {
                format!("instantiate accepted with initial supply {sum} above cap {cap}")
            }) {
                return;
            }
            if sum == *cap {
                h.out.count("instantiate_cap_equals_supply");
            }
        }
        if cfg.mint.is_none() {
            h.out.count("instantiate_without_minter");
        }
        let mut m = Model {
            minter: cfg.mint.as_ref().map(|x| x.0.clone()),
            cap: cfg.mint.as_ref().and_then(|x| x.1),
            renounced: cfg.mint.is_none(),
            former: vec![],
        };
        let mut pre = c.snap(false);
        let want = m.minter.clone().map(|a| (a, m.cap));
        if !h.check(pre.minter == want, "C13/query/instantiate/minter-or-cap-differs-from-model", || {
            format!("Minter query {:?}, instantiate said {:?}", pre.minter, want)
        }) {
            return;
        }
        if h.idx % 8 == 3 {
            // burning through an allowance larger than what the owner holds, then minting into whatever room the
            // contract believes it has: what is destroyed and what is booked as destroyed must be the same
            let owner = pre.bal.iter().find(|(_, b)| **b > 0 && **b < u128::MAX / 8).map(|(a, b)| (a.clone(), *b));
            if let (Some((owner, bal)), Some(minter)) = (owner, m.minter.clone()) {
                let spender = crate::cw20w::pool().actors.iter().find(|a| **a != owner).cloned().unwrap_or_default();
                let script: Vec<(String, Op)> = vec![
                    (owner.clone(), Op::Inc { spender: spender.clone(), amt: bal * 4 + 7, exp: None }),
                    (spender.clone(), Op::BurnFrom { owner: owner.clone(), amt: bal + 1 + bal / 2 }),
                    (spender.clone(), Op::BurnFrom { owner: owner.clone(), amt: bal }),
                ];
                for (sender, op) in script {
                    if !self.step(h, &mut c, &mut m, &mut pre, &sender, &op) {
                        return;
                    }
                }
                if let Some(cap) = m.cap {
                    let room = cap.saturating_sub(pre.supply);
                    if room > 0 && !self.step(h, &mut c, &mut m, &mut pre, &minter, &Op::Mint { to: spender, amt: room }) {
                        return;
                    }
                }
                h.out.count("burns_through_an_allowance_above_the_balance_tried");
            }
        }
        let n = h.tier.pick(60, 100);
        let migrate_at = if h.idx % 4 == 3 { h.rng.range(0, 40) as usize } else { usize::MAX };
        for i in 0..n {
            if i == migrate_at {
                // upgrade path: the token was deployed by an older release and is migrated now
                let v = *h.rng.pick(&["0.13.4", "0.9.1", "0.13.0", "0.2.3", "1.1.2", "2.0.0", "0.7.0", "0.10.3", "0.1.0", "0.14.0", "0.16.0", "0.12.0-alpha1", "0.10.0-soon4", "0.13.0-rc.2"]);
                cw2::set_contract_version(&mut c.w.store, "crates.io:cw20-base", v).unwrap();
                let r = c.w.tx(|deps, env| cw20_base::contract::migrate(deps, env, cw20_base::msg::MigrateMsg {}));
                h.out.evaluations += 1;
                h.note(format!("migrate from {v} => {}", r.class()));
                if r.is_ok() {
                    h.out.count("migrations_run");
                }
                let post = c.snap(false);
                let want = m.minter.clone().map(|a| (a, m.cap));
                if !h.check(post.minter == want && post.supply == pre.supply, "C13/migrate/minter-cap-or-supply-changed-by-migration", || {
                    format!("migrate from {v}: minter/cap {:?} -> {:?}, supply {} -> {}", want, post.minter, pre.supply, post.supply)
                }) {
                    return;
                }
                pre = post;
                continue;
            }
            let (sender, op) = gen_op(&mut h.rng, &c, &pre, &MIX_MINTER);
            // former minters retry often
            let sender = if !m.former.is_empty() && h.rng.chance(1, 5) {
                h.rng.pick_cloned(&m.former)
            } else {
                sender
            };
            // now and then the contract's migration admin (as the chain reports it) tries the minter's calls
            let mut side = h.rng.clone();
            side.below(1000);
            let sender = if matches!(op, Op::UpdateMinter { .. } | Op::Mint { .. }) && side.chance(1, 10) {
                h.out.count("minter_calls_tried_by_the_migration_admin");
                crate::direct::chain_admin()
            } else {
                sender
            };
            if !self.step(h, &mut c, &mut m, &mut pre, &sender, &op) {
                return;
            }
        }
    }
}

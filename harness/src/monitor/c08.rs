//! C08 — cw1-subkeys: a subkey never spends beyond its unexpired native allowance.

use crate::core::{Hist, Monitor, Tier};
use crate::cw1w::*;
use crate::cw20w::{pool, Exp};
use crate::direct::Res;
use std::collections::BTreeMap;

pub struct C08;

/// 256-bit accumulator
#[derive(Clone, Copy, Default, PartialEq, Eq, PartialOrd, Ord, Debug)]
struct Big(u128, u128);
impl Big {
    fn add(&mut self, x: u128) {
        let (lo, c) = self.1.overflowing_add(x);
        self.1 = lo;
        if c {
            self.0 += 1;
        }
    }
}

#[derive(Default)]
struct Ledger {
    granted: BTreeMap<(String, String), Big>,
    spent: BTreeMap<(String, String), Big>,
}

fn view_of(s: &Snap, a: &str) -> (BTreeMap<String, u128>, Exp) {
    match s.view.get(a) {
        Some(al) => (al.nonzero(), al.exp),
        None => (BTreeMap::new(), Exp::Never),
    }
}

impl C08 {
    fn step(&self, h: &mut Hist, p: &mut Proxy, led: &mut Ledger, pre: &mut Snap, sender: &str, op: &Op) -> bool {
        let height = p.w.block.height;
        let now = p.w.block.time.nanos();
        let r = p.exec(sender, op);
        log_op(h, p, sender, op, &r);
        h.out.evaluations += 1;
        if let Res::Abort(_) = &r {
            h.out.abort(&crate::direct::last_panic_site());
        }
        let post = p.snap();
        let ok = r.is_ok();
        let is_admin = pre.admins.iter().any(|a| a == sender);
        let kind = op.kind();

        match op {
            Op::Execute { msgs } if !is_admin => {
                let e = eval_subkey(pre.raw.get(sender), pre.perms.get(sender), msgs, height, now);
                let has_send = !e.spend.is_empty() || msgs.iter().any(|m| msg_kind(m) == "bank_send");
                let multi_send = msgs.iter().filter(|m| msg_kind(m) == "bank_send").count() > 1;
                let exp_state = match pre.raw.get(sender) {
                    None => 0,
                    Some(a) if a.exp.expired(height, now) => 1,
                    Some(_) => 2,
                };
                h.out.distinct(&("subkey_execute", r.class(), e.reason, has_send, multi_send, exp_state));
                if ok && has_send {
                    h.out.count("subkey_spends_ok");
                    if multi_send {
                        h.out.count("multi_send_calls_ok");
                    }
                    // must have been covered by an unexpired allowance
                    if !h.check(e.verdict != Tri::Deny, "C08/spend/accepted-beyond-allowance", || {
                        format!("{sender} spent {:?} with stored allowance {:?} at h={height} t={now}: {}", e.spend, pre.raw.get(sender), e.reason)
                    }) {
                        return false;
                    }
                    // exact deduction per denomination, expiry untouched
                    let before = pre.raw.get(sender).map(|a| a.map()).unwrap_or_default();
                    let after = post.raw.get(sender).map(|a| a.nonzero()).unwrap_or_default();
                    let mut want = before.clone();
                    for (d, x) in &e.spend {
                        let cur = *want.get(d).unwrap_or(&0);
                        want.insert(d.clone(), cur.saturating_sub(*x));
                    }
                    let want: BTreeMap<String, u128> = want.into_iter().filter(|(_, a)| *a > 0).collect();
                    if !h.check(after == want, "C08/spend/allowance-not-deducted-exactly", || {
                        format!("allowance {before:?} minus spend {:?} should be {want:?}, stored {after:?}", e.spend)
                    }) {
                        return false;
                    }
                    let (e0, e1) = (pre.raw.get(sender).map(|a| a.exp), post.raw.get(sender).map(|a| a.exp));
                    if !h.check(e0 == e1, "C08/spend/expiry-changed-by-spend", || format!("{e0:?} -> {e1:?}")) {
                        return false;
                    }
                    for (d, x) in &e.spend {
                        if *x == *before.get(d).unwrap_or(&0) && *x > 0 {
                            h.out.count("spends_of_exactly_the_remaining_allowance");
                        }
                        led.spent.entry((sender.to_string(), d.clone())).or_default().add(*x);
                        let g = led.granted.get(&(sender.to_string(), d.clone())).copied().unwrap_or_default();
                        let s = led.spent.get(&(sender.to_string(), d.clone())).copied().unwrap_or_default();
                        if !h.check(s <= g, "C08/cumulative/spent-exceeds-granted", || {
                            format!("{sender} has relayed {s:?} {d}, admins only ever granted {g:?}")
                        }) {
                            return false;
                        }
                    }
                } else if !ok {
                    if has_send {
                        match e.reason {
                            "exceeds remaining allowance" => h.out.count("overspends_rejected"),
                            "allowance expired" => {
                                h.out.count("spends_on_expired_allowance_rejected");
                                match pre.raw.get(sender).map(|a| a.exp) {
                                    Some(Exp::H(x)) if x == height => h.out.count("spends_at_exact_expiry_height_rejected"),
                                    Some(Exp::T(x)) if x == now => h.out.count("spends_at_exact_expiry_time_rejected"),
                                    _ => {}
                                }
                            }
                            _ => {}
                        }
                    }
                    // whole call failed: own allowance untouched
                    if !h.check(pre.raw.get(sender) == post.raw.get(sender), "C08/spend/failed-call-changed-allowance", || {
                        format!("{:?} -> {:?}", pre.raw.get(sender), post.raw.get(sender))
                    }) {
                        return false;
                    }
                }
                if ok && !has_send {
                    if !h.check(pre.raw.get(sender) == post.raw.get(sender), "C08/spend/allowance-changed-without-send", || {
                        format!("{:?} -> {:?}", pre.raw.get(sender), post.raw.get(sender))
                    }) {
                        return false;
                    }
                }
                if ok {
                    if let Some(Exp::H(x)) = pre.raw.get(sender).map(|a| a.exp) {
                        if x == height + 1 && has_send {
                            h.out.count("spends_one_block_before_expiry_ok");
                        }
                    }
                }
                // one subkey's activity never changes another's allowance or permissions
                for a in &pool().actors {
                    if a != sender {
                        h.out.oracle_checks += 1;
                        if pre.raw.get(a) != post.raw.get(a) || pre.perms.get(a) != post.perms.get(a) {
                            h.violate(
                                "C08/isolation/other-subkey-changed",
                                format!("call by {sender} changed {a}: {:?}/{:?} -> {:?}/{:?}", pre.raw.get(a), pre.perms.get(a), post.raw.get(a), post.perms.get(a)),
                            );
                            return false;
                        }
                    }
                }
                if !h.check(pre.perms.get(sender) == post.perms.get(sender), "C08/isolation/own-permissions-changed-by-spend", || "permissions changed".into()) {
                    return false;
                }
            }
            Op::Inc { spender, coin, exp } | Op::Dec { spender, coin, exp } => {
                let inc = matches!(op, Op::Inc { .. });
                let (v0, e0) = view_of(pre, spender);
                let (v1, e1) = view_of(&post, spender);
                let pre_expired = pre.raw.get(spender).map(|a| a.exp.expired(height, now)).unwrap_or(false);
                h.out.distinct(&(kind, r.class(), is_admin, pre_expired, pre.raw.contains_key(spender), exp.is_some()));
                if ok {
                    if !h.check(is_admin, &format!("C08/grant/{kind}/accepted-from-non-admin"), || format!("{sender} is not an admin")) {
                        return false;
                    }
                    let (d, x) = coin;
                    let mut want = v0.clone();
                    if inc {
                        h.out.count("increases_ok");
                        if d.chars().any(|c| c.is_ascii_uppercase()) {
                            h.out.count("grants_in_denominations_spelt_with_capital_letters");
                        }
                        if pre_expired {
                            h.out.count("regrants_after_expiry_ok");
                        }
                        let cur = *want.get(d).unwrap_or(&0);
                        match cur.checked_add(*x) {
                            Some(n) => {
                                want.insert(d.clone(), n);
                            }
                            None => {
                                h.violate("C08/grant/increase-overflow-accepted", format!("{cur} + {x}"));
                                return false;
                            }
                        }
                        led.granted.entry((spender.clone(), d.clone())).or_default().add(*x);
                    } else {
                        h.out.count("decreases_ok");
                        let cur = *want.get(d).unwrap_or(&0);
                        if *x > cur {
                            h.out.count("decreases_beyond_allowance_saturated");
                        }
                        want.insert(d.clone(), cur.saturating_sub(*x));
                    }
                    let want: BTreeMap<String, u128> = want.into_iter().filter(|(_, a)| *a > 0).collect();
                    if !h.check(v1 == want, &format!("C08/grant/{kind}/allowance-after-wrong"), || {
                        format!("visible allowance of {spender}: {v0:?} then {kind} {x} {d} => {v1:?}, expected {want:?}")
                    }) {
                        return false;
                    }
                    // expiry: the given one, else the previous one; an emptied allowance disappears (Never)
                    let want_exp = if v1.is_empty() && !inc { vec![Exp::Never, exp.unwrap_or(e0)] } else { vec![exp.unwrap_or(e0)] };
                    if !h.check(want_exp.contains(&e1), &format!("C08/grant/{kind}/expiry-after-wrong"), || {
                        format!("expiry {e0:?} with request {exp:?} became {e1:?}")
                    }) {
                        return false;
                    }
                    // the new expiry must lie in the future
                    if let Some(e) = exp {
                        if !h.check(!e.expired(height, now), &format!("C08/grant/{kind}/accepted-reached-expiry"), || format!("{e:?} at h={height} t={now}")) {
                            return false;
                        }
                    }
                } else if !h.check(pre.raw == post.raw, &format!("C08/grant/{kind}/failed-call-changed-allowances"), || "changed".into()) {
                    return false;
                }
                // nobody else's allowance moved
                for a in &pool().actors {
                    if a != spender && pre.raw.get(a) != post.raw.get(a) {
                        h.violate(&format!("C08/grant/{kind}/other-subkey-changed"), format!("{a}: {:?} -> {:?}", pre.raw.get(a), post.raw.get(a)));
                        return false;
                    }
                }
            }
            _ => {
                h.out.distinct(&(kind, r.class(), is_admin));
                // admin relays, freeze, update_admins, set_permissions: allowances never move
                if !h.check(pre.raw == post.raw, &format!("C08/other/{kind}/allowances-changed"), || {
                    format!("{:?} -> {:?}", pre.raw, post.raw)
                }) {
                    return false;
                }
                if let (Op::Execute { .. }, true, true) = (op, is_admin, ok) {
                    h.out.count("admin_relays_not_deducted");
                }
            }
        }
        // permissions: changed only by an admin's SetPermissions, only for its target, to what was asked for
        h.out.oracle_checks += 1;
        match op {
            Op::SetPerm { spender, perm } if ok => {
                let admin_now = pre.admins.iter().any(|a| a == sender);
                if !h.check(admin_now, "C08/permissions/set_permissions/accepted-from-non-admin", || format!("{sender} is not an admin")) {
                    return false;
                }
                let mut want = pre.perms.clone();
                want.insert(spender.clone(), *perm);
                if !h.check(post.perms == want, "C08/permissions/set_permissions/stored-permissions-differ-from-request", || {
                    format!("asked {perm:?} for {spender}; before {:?}, after {:?}", pre.perms, post.perms)
                }) {
                    return false;
                }
                if pre.perms.contains_key(spender) {
                    h.out.count("permissions_replaced");
                }
            }
            _ => {
                if !h.check(pre.perms == post.perms, &format!("C08/permissions/{}/changed-without-an-admin-set_permissions", op.kind()), || {
                    format!("{:?} -> {:?} in {} by {sender} (ok={ok})", pre.perms, post.perms, op.kind())
                }) {
                    return false;
                }
            }
        }
        // what clients can see (point queries and listings, expired grants hidden) is the stored state
        h.out.oracle_checks += 1;
        if let Some(d) = p.queries_disagree(&post) {
            h.violate("C08/query/views-differ-from-stored-grants", d);
            return false;
        }
        h.out.count("query_views_compared_with_stored_grants");
        h.out.state(&(post.raw.len(), post.raw.values().filter(|a| a.exp != Exp::Never).count(), post.raw.values().map(|a| a.coins.len()).sum::<usize>()));
        *pre = post;
        true
    }

    fn directed(&self, h: &mut Hist) -> bool {
        if h.idx >= 12 {
            return false;
        }
        // grant / decrease / spend in all 6 orders, at expiry -1 and exactly at expiry
        let perm = (h.idx % 6) as usize;
        let at_expiry = h.idx >= 6;
        let pl = pool();
        let (admin, sub, to) = (pl.actors[0].clone(), pl.actors[1].clone(), pl.actors[2].clone());
        let mut p = Proxy::new(&mut h.rng, Kind::Subkeys);
        if !p.instantiate(vec![admin.clone()], true).is_ok() {
            return true;
        }
        let mut led = Ledger::default();
        let mut pre = p.snap();
        let hgt = p.w.block.height;
        let e = Exp::H(hgt + 10);
        if !self.step(h, &mut p, &mut led, &mut pre, &admin, &Op::Inc { spender: sub.clone(), coin: ("uatom".into(), 100), exp: Some(e) }) {
            return true;
        }
        p.w.advance(if at_expiry { 10 } else { 9 }, 50);
        pre = p.snap();
        let send = |amt: u128| Op::Execute {
            msgs: vec![
                cosmwasm_std::BankMsg::Send { to_address: to.clone(), amount: vec![cosmwasm_std::coin(amt / 2, "uatom")] }.into(),
                cosmwasm_std::BankMsg::Send { to_address: to.clone(), amount: vec![cosmwasm_std::coin(amt - amt / 2, "uatom")] }.into(),
            ],
        };
        let ops = [
            (admin.clone(), Op::Inc { spender: sub.clone(), coin: ("uatom".into(), 20), exp: None }),
            (admin.clone(), Op::Dec { spender: sub.clone(), coin: ("uatom".into(), 50), exp: None }),
            (sub.clone(), send(60)),
        ];
        let orders = [[0, 1, 2], [0, 2, 1], [1, 0, 2], [1, 2, 0], [2, 0, 1], [2, 1, 0]];
        for i in orders[perm] {
            let (s, o) = &ops[i];
            if !self.step(h, &mut p, &mut led, &mut pre, s, o) {
                return true;
            }
        }
        h.out.count("race_permutations_run");
        let left = pre.raw.get(&sub).map(|a| *a.map().get("uatom").unwrap_or(&0)).unwrap_or(0);
        let _ = self.step(h, &mut p, &mut led, &mut pre, &sub, &send(left)) && self.step(h, &mut p, &mut led, &mut pre, &sub, &send(1));
        true
    }
}

impl Monitor for C08 {
    fn id(&self) -> &'static str {
        "C08"
    }
    fn engine(&self) -> &'static str {
        "cwv-direct"
    }
    fn histories(&self, tier: Tier) -> u64 {
        tier.pick(2_500, 240_000)
    }
    fn mandatory(&self) -> Vec<&'static str> {
        vec![
            "query_views_compared_with_stored_grants",
            "subkey_spends_ok",
            "multi_send_calls_ok",
            "spends_of_exactly_the_remaining_allowance",
            "overspends_rejected",
            "spends_on_expired_allowance_rejected",
            "spends_at_exact_expiry_height_rejected",
            "spends_one_block_before_expiry_ok",
            "sends_back_to_the_proxy_itself",
            "increases_ok",
            "grants_in_denominations_spelt_with_capital_letters",
            "decreases_ok",
            "decreases_beyond_allowance_saturated",
            "regrants_after_expiry_ok",
            "admin_relays_not_deducted",
            "race_permutations_run",
            "migrations_run",
        ]
    }
    fn rule(&self) -> &'static str {
        "12 directed histories (all orders of {increase, decrease, two-message spend} one block before and exactly at the expiry) then seeded random histories on cw1-subkeys with 3 everyday denominations (and now and then an unknown one or one spelt with capital letters, as IBC vouchers are; sends also try the lower-case spelling), multi-coin / multi-message sends, grants and decreases with all expiry kinds and block advances onto expiry boundaries; after every call the stored allowances of all pool subkeys are read back and compared with an exact per-denomination deduction model and a cumulative granted/spent ledger; Allowance, AllAllowances, Permissions and AllPermissions (through the query entry point) must show exactly the stored, unexpired grants; every third history is upgraded in mid-life through the real migrate. distinct = (op class, outcome, model reason, has bank send?, several sends?, allowance missing/expired/live) and (grant kind, outcome, admin?, previous expired?, existed?, expiry given?)"
    }
    fn assumptions(&self) -> Vec<&'static str> {
        vec![
            "spends by an address that is an admin at call time are admin relays (not deducted, not counted)",
            "that queries hide expired allowances is taken as the meaning of 'restarts from zero' for a re-grant after expiry",
            "zero-amount coins of a denomination with nothing left are not decided by the statement",
        ]
    }
    fn run_history(&self, h: &mut Hist) {
        if self.directed(h) {
            return;
        }
        let mut p = Proxy::new(&mut h.rng, Kind::Subkeys);
        let pl = pool();
        // one or two admins from the first two actors, so the other four act as subkeys
        let admins = if h.rng.chance(1, 2) { vec![pl.actors[0].clone()] } else { vec![pl.actors[0].clone(), pl.actors[1].clone()] };
        let r = p.instantiate(admins.clone(), true);
        h.note(format!("subkeys instantiate admins={admins:?} => {}", r.class()));
        if !r.is_ok() {
            return;
        }
        let mut led = Ledger::default();
        let mut pre = p.snap();
        let n = h.tier.pick(80, 120);
        let migrate_at = if h.idx % 3 == 1 { h.rng.range(5, 60) as usize } else { usize::MAX };
        for i in 0..n {
            if i == migrate_at {
                let v = *h.rng.pick(&["0.13.4", "1.1.2", "1.0.0", "0.9.1", "2.0.0", "0.7.0", "0.2.3", "0.16.0"]);
                cw2::set_contract_version(&mut p.w.store, "crates.io:cw1-subkeys", v).unwrap();
                let r = p.w.tx(|d, e| cw1_subkeys::contract::migrate(d, e, cosmwasm_std::Empty {}));
                h.out.evaluations += 1;
                h.note(format!("migrate from {v} => {}", r.class()));
                if r.is_ok() {
                    h.out.count("migrations_run");
                }
                let post = p.snap();
                // an allowance changes only by an admin's increase / decrease or by its own spending
                let same = pre.raw.iter().all(|(k, a)| post.raw.get(k).map(|b| b.nonzero() == a.nonzero() && b.exp == a.exp).unwrap_or(a.nonzero().is_empty()))
                    && post.raw.keys().all(|k| pre.raw.contains_key(k))
                    && pre.perms == post.perms;
                if !h.check(same, "C08/migrate/allowances-or-permissions-changed-by-migration", || format!("migrate from {v}: {:?} -> {:?}", pre.raw, post.raw)) {
                    return;
                }
                pre = post;
                continue;
            }
            if h.rng.chance(1, 5) {
                let s = pre.clone();
                gen_advance(&mut h.rng, &mut p, &s);
                pre = p.snap();
            }
            let (sender, mut op) = gen_op(&mut h.rng, &p, &pre);
            // bias Execute towards bank sends
            if let Op::Execute { msgs } = &mut op {
                if h.rng.chance(2, 3) {
                    let anchors = pre.raw.get(&sender).map(|a| a.map()).unwrap_or_default();
                    for m in msgs.iter_mut() {
                        if msg_kind(m) != "bank_send" && h.rng.chance(3, 4) {
                            let mut tries = 0;
                            loop {
                                let c = gen_msg(&mut h.rng, &anchors, p.w.block.time.nanos());
                                tries += 1;
                                if msg_kind(&c) == "bank_send" || tries > 10 {
                                    *m = c;
                                    break;
                                }
                            }
                        }
                    }
                }
            }
            // now and then the coins are sent back to the proxy's own account: a send like any other
            if let Op::Execute { msgs } = &mut op {
                let mut side = h.rng.clone();
                side.below(1000);
                for m in msgs.iter_mut() {
                    if let cosmwasm_std::CosmosMsg::Bank(cosmwasm_std::BankMsg::Send { to_address, .. }) = m {
                        if side.chance(1, 8) {
                            *to_address = p.w.contract.to_string();
                            h.out.count("sends_back_to_the_proxy_itself");
                        }
                    }
                }
            }
            if !self.step(h, &mut p, &mut led, &mut pre, &sender, &op) {
                return;
            }
        }
    }
}

use crate::core::Monitor;

pub mod c01;
pub mod c02;
pub mod c04;
pub mod c07;
pub mod c08;
pub mod c09;
pub mod c13;
pub mod c14;
pub mod c16;
pub mod c17;
pub mod c19;
pub mod c20;
pub mod ics;
pub mod ms;
pub mod stake;

pub fn get(id: &str) -> Option<Box<dyn Monitor>> {
    match id {
        "C01" => Some(Box::new(c01::C01)),
        "C02" => Some(Box::new(c02::C02)),
        "C03" => Some(Box::new(ms::Ms { prop: "C03" })),
        "C04" => Some(Box::new(c04::C04)),
        "C05" => Some(Box::new(ms::Ms { prop: "C05" })),
        "C06" => Some(Box::new(ms::Ms { prop: "C06" })),
        "C07" => Some(Box::new(c07::C07)),
        "C08" => Some(Box::new(c08::C08)),
        "C09" => Some(Box::new(c09::C09)),
        "C10" => Some(Box::new(stake::Stake { prop: "C10" })),
        "C11" => Some(Box::new(ics::Ics { prop: "C11" })),
        "C12" => Some(Box::new(ics::Ics { prop: "C12" })),
        "C13" => Some(Box::new(c13::C13)),
        "C14" => Some(Box::new(c14::C14)),
        "C15" => Some(Box::new(ms::Ms { prop: "C15" })),
        "C16" => Some(Box::new(c16::C16)),
        "C17" => Some(Box::new(c17::C17)),
        "C18" => Some(Box::new(ics::Ics { prop: "C18" })),
        "C19" => Some(Box::new(c19::C19)),
        "C20" => Some(Box::new(c20::C20)),
        _ => None,
    }
}

use crate::core::Monitor;

pub mod c01;
pub mod c02;
pub mod c04;
pub mod c13;
pub mod c19;

pub fn get(id: &str) -> Option<Box<dyn Monitor>> {
    match id {
        "C01" => Some(Box::new(c01::C01)),
        "C02" => Some(Box::new(c02::C02)),
        "C04" => Some(Box::new(c04::C04)),
        "C13" => Some(Box::new(c13::C13)),
        "C19" => Some(Box::new(c19::C19)),
        _ => None,
    }
}

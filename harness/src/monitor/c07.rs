//! C07 — cw1: the proxy relays exactly the submitted messages, only when authorised.

use crate::core::{Hist, Monitor, Tier};
use crate::cw1w::*;
use crate::direct::Res;
use cosmwasm_std::{CosmosMsg, ReplyOn};

pub struct C07;

pub fn check_relay(h: &mut Hist, prop: &str, msgs: &[CosmosMsg], resp: &cosmwasm_std::Response) -> bool {
    if !h.check(resp.messages.len() == msgs.len(), &format!("{prop}/relay/message-count-differs"), || {
        format!("submitted {} messages, relayed {}", msgs.len(), resp.messages.len())
    }) {
        return false;
    }
    for (i, (a, b)) in msgs.iter().zip(resp.messages.iter()).enumerate() {
        let same = *a == b.msg && b.reply_on == ReplyOn::Never && b.gas_limit.is_none();
        if !h.check(same, &format!("{prop}/relay/message-altered"), || {
            format!("message #{i}: submitted {a:?}, relayed {b:?}")
        }) {
            return false;
        }
    }
    true
}

impl C07 {
    fn step(&self, h: &mut Hist, p: &mut Proxy, pre: &mut Snap, sender: &str, op: &Op) -> bool {
        let mut sh = std::mem::take(&mut *SHADOW.with(|s| s.clone()).borrow_mut());
        let r = self.step_inner(h, p, pre, &mut sh, sender, op);
        SHADOW.with(|s| *s.borrow_mut() = sh);
        r
    }

    fn step_inner(&self, h: &mut Hist, p: &mut Proxy, pre: &mut Snap, shadow: &mut Shadow, sender: &str, op: &Op) -> bool {
        let height = p.w.block.height;
        let now = p.w.block.time.nanos();
        let r = p.exec(sender, op);
        log_op(h, p, sender, op, &r);
        h.out.evaluations += 1;
        if let Res::Abort(_) = &r {
            h.out.abort(&crate::direct::last_panic_site());
        }
        let post = p.snap();
        let mut spend_of_call: std::collections::BTreeMap<String, u128> = Default::default();
        // authority comes from the admin set as requested (instantiate / authorised UpdateAdmins), not from what is stored
        let was_admin_any = match &shadow.admins {
            Some(a) => a.iter().any(|x| x == sender),
            None => pre.admins.iter().any(|a| a == sender),
        };
        if let Op::Execute { msgs } = op {
            let is_admin = was_admin_any;
            let was_admin_class = if is_admin { "admin" } else if pre.raw.contains_key(sender) || pre.perms.contains_key(sender) { "subkey" } else { "stranger" };
            let (verdict, reason) = if is_admin {
                (Tri::Allow, "admin")
            } else if p.kind == Kind::Whitelist {
                (Tri::Deny, "not an admin")
            } else {
                // judged against the monitor's own record of the grants, not the stored allowance
                let e = eval_subkey(shadow.allow.get(sender), shadow.perms.get(sender), msgs, height, now);
                spend_of_call = e.spend.clone();
                (e.verdict, e.reason)
            };
            let kinds: Vec<&str> = msgs.iter().map(msg_kind).collect();
            let forbidden_pos = if verdict == Tri::Deny && msgs.len() > 1 { 1 } else { 0 };
            h.out.distinct(&(p.kind, was_admin_class, r.class(), kinds.clone(), reason));
            for k in &kinds {
                h.out.count(&format!("msgkind_{k}_{}", if r.is_ok() { "relayed" } else { "refused" }));
            }
            if msgs.len() > 1 {
                h.out.count("multi_message_calls");
                if forbidden_pos == 1 && !is_admin {
                    h.out.count("multi_message_calls_refused");
                }
            }
            if msgs.is_empty() {
                h.out.count("empty_list_calls");
            }
            match &r {
                Res::Ok(resp) => {
                    h.out.count(&format!("relay_ok_{was_admin_class}"));
                    if !h.check(verdict != Tri::Deny, &format!("C07/{:?}/relayed-without-authority", p.kind), || {
                        format!("{sender} ({was_admin_class}) relayed {kinds:?} although the model denies it: {reason}")
                    }) {
                        return false;
                    }
                    if !check_relay(h, "C07", msgs, resp) {
                        return false;
                    }
                }
                _ => {
                    h.out.count(&format!("relay_refused_{was_admin_class}"));
                    // an admin can always relay
                    if !h.check(!is_admin, &format!("C07/{:?}/admin-refused", p.kind), || {
                        format!("admin {sender} was refused: {}", r.err_text())
                    }) {
                        return false;
                    }
                    // nothing relayed, nothing changed
                    if !h.check(post == *pre, &format!("C07/{:?}/refused-call-changed-state", p.kind), || {
                        format!("state changed in a refused call: {pre:?} -> {post:?}")
                    }) {
                        return false;
                    }
                    if verdict == Tri::Allow {
                        h.out.count("covered_subkey_calls_refused");
                        if !h.check(false, &format!("C07/{:?}/covered-subkey-refused", p.kind), || {
                            format!("{sender} submitted {kinds:?} fully covered by its grants but was refused: {}", r.err_text())
                        }) {
                            return false;
                        }
                    }
                }
            }
        } else {
            h.out.distinct(&(p.kind, op.kind(), r.class()));
        }
        if r.is_ok() && p.kind == Kind::Subkeys {
            shadow.apply(sender, op, was_admin_any, &spend_of_call, height, now);
        }
        if r.is_ok() && was_admin_any && shadow.mutable {
            match op {
                Op::UpdateAdmins { admins } => shadow.admins = Some(admins.clone()),
                Op::Freeze => shadow.mutable = false,
                _ => {}
            }
        }
        *pre = post;
        true
    }
}

thread_local! {
    /// the shadow of the current history (one history per thread at a time)
    static SHADOW: std::rc::Rc<std::cell::RefCell<Shadow>> = std::rc::Rc::new(std::cell::RefCell::new(Shadow::default()));
}

pub fn reset_shadow() {
    SHADOW.with(|s| *s.borrow_mut() = Shadow::default());
}

fn shadow_instantiated(admins: &[String], mutable: bool) {
    SHADOW.with(|s| {
        let mut s = s.borrow_mut();
        s.admins = Some(admins.to_vec());
        s.mutable = mutable;
    });
}

impl C07 {
    /// cumulative coverage inside one call and across calls, forbidden message first/middle/last
    fn directed(&self, h: &mut Hist) {
        use cosmwasm_std::{coin, BankMsg, StakingMsg};
        let pl = crate::cw20w::pool();
        let (admin, sub, to) = (pl.actors[0].clone(), pl.actors[1].clone(), pl.actors[2].clone());
        let mut p = Proxy::new(&mut h.rng, Kind::Subkeys);
        if !p.instantiate(vec![admin.clone()], true).is_ok() {
            return;
        }
        shadow_instantiated(&[admin.clone()], true);
        let mut pre = p.snap();
        let send = |amt: u128, d: &str| -> CosmosMsg { BankMsg::Send { to_address: to.clone(), amount: vec![coin(amt, d)] }.into() };
        let burn: CosmosMsg = BankMsg::Burn { amount: vec![coin(1, "uatom")] }.into();
        let dele: CosmosMsg = StakingMsg::Delegate { validator: "val".into(), amount: coin(1, "uatom") }.into();
        let exp = match h.idx % 2 {
            0 => None,
            _ => Some(crate::cw20w::Exp::H(p.w.block.height + 50)),
        };
        let mut script: Vec<(String, Op)> = vec![
            (admin.clone(), Op::Inc { spender: sub.clone(), coin: ("uatom".into(), 10), exp }),
            (admin.clone(), Op::Inc { spender: sub.clone(), coin: ("ubtc".into(), 5), exp: None }),
            (admin.clone(), Op::SetPerm { spender: sub.clone(), perm: Perm { delegate: true, ..Default::default() } }),
            // each send is within the allowance, together they exceed it
            (sub.clone(), Op::Execute { msgs: vec![send(6, "uatom"), send(6, "uatom")] }),
            (sub.clone(), Op::Execute { msgs: vec![send(6, "uatom"), send(4, "uatom")] }),
            (sub.clone(), Op::Execute { msgs: vec![send(1, "uatom")] }),
            (sub.clone(), Op::Execute { msgs: vec![send(2, "ubtc"), dele.clone(), send(3, "ubtc")] }),
            (sub.clone(), Op::Execute { msgs: vec![send(1, "ubtc")] }),
        ];
        if h.idx >= 2 {
            script = vec![
                (admin.clone(), Op::Inc { spender: sub.clone(), coin: ("uatom".into(), 10), exp }),
                (admin.clone(), Op::SetPerm { spender: sub.clone(), perm: Perm { delegate: true, ..Default::default() } }),
                (sub.clone(), Op::Execute { msgs: vec![burn.clone(), send(1, "uatom")] }),
                (sub.clone(), Op::Execute { msgs: vec![send(1, "uatom"), burn.clone(), send(1, "uatom")] }),
                (sub.clone(), Op::Execute { msgs: vec![send(1, "uatom"), dele.clone(), burn.clone()] }),
                (to.clone(), Op::Execute { msgs: vec![burn.clone()] }),
                (to.clone(), Op::Execute { msgs: vec![dele.clone()] }),
                (sub.clone(), Op::Execute { msgs: vec![send(5, "uatom"), send(5, "uatom"), send(1, "uatom")] }),
                (sub.clone(), Op::Execute { msgs: vec![send(5, "uatom"), dele, send(5, "uatom")] }),
                (sub.clone(), Op::Execute { msgs: vec![send(1, "uatom")] }),
            ];
        }
        for (s, o) in script {
            if !self.step(h, &mut p, &mut pre, &s, &o) {
                return;
            }
        }
        h.out.count("directed_scenarios_completed");
    }

    /// grants around an expiry: drained then topped up without a new expiry; expired then re-granted with amount 0
    fn directed_expiry(&self, h: &mut Hist) {
        use cosmwasm_std::{coin, BankMsg};
        let pl = crate::cw20w::pool();
        let (admin, sub, to) = (pl.actors[0].clone(), pl.actors[1].clone(), pl.actors[2].clone());
        let mut p = Proxy::new(&mut h.rng, Kind::Subkeys);
        if !p.instantiate(vec![admin.clone()], true).is_ok() {
            return;
        }
        shadow_instantiated(&[admin.clone()], true);
        let mut pre = p.snap();
        let send = |amt: u128, d: &str| -> CosmosMsg { BankMsg::Send { to_address: to.clone(), amount: vec![coin(amt, d)] }.into() };
        let by_time = h.idx % 2 == 1;
        let exp = if by_time { crate::cw20w::Exp::T(p.w.block.time.nanos() + 60_000_000_000) } else { crate::cw20w::Exp::H(p.w.block.height + 10) };
        let later = if by_time { crate::cw20w::Exp::T(p.w.block.time.nanos() + 600_000_000_000) } else { crate::cw20w::Exp::H(p.w.block.height + 100) };
        let drained = h.idx < 6;
        let first: Vec<(String, Op)> = if drained {
            vec![
                (admin.clone(), Op::Inc { spender: sub.clone(), coin: ("uatom".into(), 10), exp: Some(exp) }),
                (sub.clone(), Op::Execute { msgs: vec![send(4, "uatom"), send(6, "uatom")] }), // exactly everything
                (admin.clone(), Op::Inc { spender: sub.clone(), coin: ("uatom".into(), 7), exp: None }), // keeps the expiry
                (sub.clone(), Op::Execute { msgs: vec![send(1, "uatom")] }),
            ]
        } else {
            vec![
                (admin.clone(), Op::Inc { spender: sub.clone(), coin: ("uatom".into(), 10), exp: Some(exp) }),
                (sub.clone(), Op::Execute { msgs: vec![send(3, "uatom")] }),
            ]
        };
        for (s, o) in first {
            if !self.step(h, &mut p, &mut pre, &s, &o) {
                return;
            }
        }
        // to the expiry exactly, then beyond it
        if by_time {
            p.w.advance(5, 60);
        } else {
            p.w.advance(10, 50);
        }
        pre = p.snap();
        let second: Vec<(String, Op)> = if drained {
            vec![(sub.clone(), Op::Execute { msgs: vec![send(1, "uatom")] }), (sub.clone(), Op::Execute { msgs: vec![send(6, "uatom")] })]
        } else {
            vec![
                (sub.clone(), Op::Execute { msgs: vec![send(1, "uatom")] }),
                // nothing is granted, only a new expiry: the lapsed remainder must not come back
                (admin.clone(), Op::Inc { spender: sub.clone(), coin: ("uatom".into(), 0), exp: Some(later) }),
                (sub.clone(), Op::Execute { msgs: vec![send(7, "uatom")] }),
                (sub.clone(), Op::Execute { msgs: vec![send(1, "uatom")] }),
            ]
        };
        for (s, o) in second {
            if !self.step(h, &mut p, &mut pre, &s, &o) {
                return;
            }
        }
        h.out.count("directed_scenarios_completed");
        h.out.count("directed_expiry_scenarios_completed");
    }
}

impl Monitor for C07 {
    fn id(&self) -> &'static str {
        "C07"
    }
    fn engine(&self) -> &'static str {
        "cwv-direct"
    }
    fn histories(&self, tier: Tier) -> u64 {
        tier.pick(3_000, 600_000)
    }
    fn mandatory(&self) -> Vec<&'static str> {
        vec![
            "relay_ok_admin",
            "execute_calls_sent_by_the_proxy_itself",
            "execute_calls_built_with_the_package_helper",
            "relay_ok_subkey",
            "relay_refused_subkey",
            "relay_refused_stranger",
            "multi_message_calls",
            "multi_message_calls_refused",
            "empty_list_calls",
            "msgkind_bank_send_relayed",
            "msgkind_bank_burn_refused",
            "msgkind_delegate_relayed",
            "msgkind_delegate_refused",
            "msgkind_wasm_execute_refused",
            "msgkind_ibc_transfer_refused",
            "msgkind_gov_refused",
            "msgkind_any_refused",
            "msgkind_distribution_other_refused",
            "directed_scenarios_completed",
            "directed_expiry_scenarios_completed",
            "execute_calls_with_funds_attached",
            "migrations_run",
        ]
    }
    fn rule(&self) -> &'static str {
        "seeded random histories on both proxies (even history index: cw1-whitelist, odd: cw1-subkeys) mixing admin/allowance/permission changes with Execute calls carrying 0-5 CosmosMsg of every kind in this build (bank send/burn, staking x3, distribution x3, wasm x3, ibc x2, gov, stargate, any) from admins, subkeys, ex-admins and strangers; each Execute is judged against an independent authorisation model evaluated on the pre-state and the Response.messages are compared element by element with the submitted list. 8 directed histories (multi-send lists around the allowance, forbidden message first/middle/last, allowance drained then topped up without expiry, lapsed then re-granted with amount 0, across height and time expiries); every third subkeys history is upgraded in mid-life through the real migrate. distinct = (proxy kind, caller class, outcome, ordered list of message kinds, model reason)"
    }
    fn assumptions(&self) -> Vec<&'static str> {
        vec![
            "Response.messages is what the chain dispatches from the proxy's address",
            "sending a zero amount of a denomination with no remaining allowance is not decided by the statement (either outcome accepted)",
        ]
    }
    fn run_history(&self, h: &mut Hist) {
        reset_shadow();
        if h.idx < 4 {
            self.directed(h);
            return;
        }
        if h.idx < 8 {
            self.directed_expiry(h);
            return;
        }
        let kind = if h.idx % 2 == 0 { Kind::Whitelist } else { Kind::Subkeys };
        let mut p = Proxy::new(&mut h.rng, kind);
        let (admins, mutable) = gen_admins(&mut h.rng);
        let r = p.instantiate(admins.clone(), mutable);
        h.note(format!("{kind:?} instantiate admins={admins:?} mutable={mutable} => {}", r.class()));
        if !r.is_ok() {
            return;
        }
        shadow_instantiated(&admins, mutable);
        if admins.is_empty() {
            h.out.count("proxies_instantiated_without_any_admin");
        }
        let mut pre = p.snap();
        let n = h.tier.pick(60, 100);
        let migrate_at = if kind == Kind::Subkeys && h.idx % 3 == 1 { h.rng.range(5, 50) as usize } else { usize::MAX };
        for i in 0..n {
            if i == migrate_at {
                // upgrade from an older release: the grants (and therefore who may relay what) must survive
                let v = *h.rng.pick(&["0.13.4", "1.1.2", "1.0.0", "0.9.1", "2.0.0", "0.7.0", "0.2.3", "0.16.0"]);
                cw2::set_contract_version(&mut p.w.store, "crates.io:cw1-subkeys", v).unwrap();
                let r = p.w.tx(|d, e| cw1_subkeys::contract::migrate(d, e, cosmwasm_std::Empty {}));
                h.out.evaluations += 1;
                h.note(format!("migrate from {v} => {}", r.class()));
                if r.is_ok() {
                    h.out.count("migrations_run");
                }
                pre = p.snap();
                continue;
            }
            if h.rng.chance(1, 5) {
                let s = pre.clone();
                gen_advance(&mut h.rng, &mut p, &s);
                pre = p.snap();
            }
            let (sender, op) = gen_op(&mut h.rng, &p, &pre);
            // now and then the caller attaches coins to the proxy call: what is relayed stays what was submitted
            p.attach = if h.rng.clone().chance(1, 7) { vec![cosmwasm_std::coin(1 + (i as u128 % 50), "uatom")] } else { vec![] };
            if !p.attach.is_empty() && matches!(op, Op::Execute { .. }) {
                h.out.count("execute_calls_with_funds_attached");
            }
            // a quarter of the calls are built with the packaged client helper (Cw1Contract::execute)
            let mut side2 = h.rng.clone();
            side2.below(77);
            side2.below(1000);
            p.via_helper = side2.chance(1, 4);
            if p.via_helper && matches!(op, Op::Execute { .. }) {
                h.out.count("execute_calls_built_with_the_package_helper");
            }
            // now and then the call arrives from the proxy's own address (a relayed message addressed to itself):
            // the proxy is a caller like any other and needs the same authority
            let mut side = h.rng.clone();
            side.below(1000);
            let sender = if matches!(op, Op::Execute { .. }) && side.chance(1, 16) {
                h.out.count("execute_calls_sent_by_the_proxy_itself");
                p.w.contract.to_string()
            } else {
                sender
            };
            if !self.step(h, &mut p, &mut pre, &sender, &op) {
                return;
            }
        }
    }
}

//! C20 — all list queries paginate completely: every item once, in order, within limits.
//! Every listing of every contract is hosted in the AppDriver and walked with many limits.

use crate::chain::Chain;
use crate::core::{Hist, Monitor, Tier};
use crate::cw20w::Exp;
use crate::direct::{mk_addr, Res};
use cosmwasm_std::{coin, to_json_binary, Addr, Decimal, Empty, Uint128};
use cw3::{ProposalListResponse, ProposalResponse, Vote, VoteListResponse, VoteResponse, VoterListResponse, VoterResponse};
use cw4::{Member, MemberListResponse, MemberResponse};
use cw_utils::{Duration, Threshold};
use std::fmt::Debug;
use std::sync::OnceLock;

pub struct C20;

const LISTINGS: [&str; 16] = [
    "cw20.AllAccounts",
    "cw20.AllAllowances",
    "cw20.AllSpenderAllowances",
    "subkeys.AllAllowances",
    "subkeys.AllPermissions",
    "fixed.ListProposals",
    "fixed.ReverseProposals",
    "fixed.ListVotes",
    "fixed.ListVoters",
    "flex.ListProposals",
    "flex.ReverseProposals",
    "flex.ListVotes",
    "flex.ListVoters",
    "group.ListMembers",
    "stake.ListMembers",
    "ics20.ListAllowed",
];
const SIZES: [usize; 10] = [0, 1, 9, 10, 11, 29, 30, 31, 32, 65];
const LIMITS: [Option<u32>; 21] = [
    None, Some(0), Some(1), Some(2), Some(3), Some(7), Some(10), Some(11), Some(29), Some(30), Some(31), Some(100), Some(u32::MAX),
    // values that change when squeezed through a narrower integer type
    Some(255), Some(256), Some(257), Some(1024), Some(65_536), Some(65_537), Some(1 << 31), Some(u32::MAX - 255),
];

fn addrs() -> &'static Vec<String> {
    static P: OnceLock<Vec<String>> = OnceLock::new();
    P.get_or_init(|| (0..80).map(|i| mk_addr(&format!("member-{i}"))).collect())
}

/// The item a client saw last has been removed in the meantime: continuing with its key as cursor (a cursor taken
/// from a previous page) still returns every later current item exactly once, in order.
fn check_stale_cursor<K: Clone + Ord + Debug>(h: &mut Hist, name: &str, mut remaining: Vec<(K, String)>, cursor: K, fetch: &dyn Fn(Option<K>, Option<u32>) -> Res<Vec<(K, String)>>) -> bool {
    remaining.sort_by(|a, b| a.0.cmp(&b.0));
    let want: Vec<K> = remaining.iter().map(|e| e.0.clone()).filter(|k| *k > cursor).collect();
    for limit in [None, Some(1u32), Some(4), Some(30)] {
        let mut got: Vec<K> = vec![];
        let mut cur = Some(cursor.clone());
        let mut pages = 0;
        loop {
            let page = match fetch(cur.clone(), limit) {
                Res::Ok(p) => p,
                other => {
                    h.violate(&format!("C20/{name}/query-failed"), format!("stale cursor {cursor:?} limit {limit:?}: {}", other.err_text()));
                    return false;
                }
            };
            if page.is_empty() {
                break;
            }
            cur = page.last().map(|e| e.0.clone());
            got.extend(page.into_iter().map(|e| e.0));
            pages += 1;
            if pages > 200 {
                break;
            }
        }
        h.out.oracle_checks += 1;
        if got != want {
            h.violate(
                &format!("C20/{name}/continuing-from-a-removed-item-skips-or-repeats"),
                format!("limit {limit:?}: after the item {cursor:?} a client had been given was removed, continuing from it returned {} of {} later items; first difference at {:?}", got.len(), want.len(), got.iter().zip(want.iter()).position(|(a, b)| a != b)),
            );
            return false;
        }
    }
    h.out.count("walks_continued_from_a_removed_item");
    true
}

/// Walk a listing with every limit and compare with the expected sequence.
/// `fetch(cursor, limit)` returns one page of (key, value-as-string).
fn check_listing<K: Clone + Ord + Debug>(
    h: &mut Hist,
    name: &str,
    mut expected: Vec<(K, String)>,
    descending: bool,
    fetch: &dyn Fn(Option<K>, Option<u32>) -> Res<Vec<(K, String)>>,
    point: &dyn Fn(&K) -> Option<String>,
) -> bool {
    expected.sort_by(|a, b| a.0.cmp(&b.0));
    if descending {
        expected.reverse();
    }
    let n = expected.len();
    let mut default_pages: Option<Vec<usize>> = None;
    for limit in LIMITS {
        let eff = limit.unwrap_or(10).min(30) as usize;
        let mut seq: Vec<(K, String)> = vec![];
        let mut cursor: Option<K> = None;
        let mut pages = 0usize;
        let mut sizes: Vec<usize> = vec![];
        loop {
            let page = match fetch(cursor.clone(), limit) {
                Res::Ok(p) => p,
                other => {
                    h.violate(&format!("C20/{name}/query-failed"), format!("limit {limit:?} cursor {cursor:?}: {}", other.err_text()));
                    return false;
                }
            };
            h.out.evaluations += 1;
            pages += 1;
            // never more than the requested limit / the maximum of 30 / the default of 10
            if !h.check(page.len() <= eff, &format!("C20/{name}/page-exceeds-limit"), || format!("limit {limit:?}: page of {} items (allowed {eff})", page.len())) {
                return false;
            }
            // an empty page is the end-of-listing signal: it must not come while items remain
            let remaining = n.saturating_sub(seq.len());
            if eff > 0 && page.is_empty() && remaining > 0 {
                h.out.oracle_checks += 1;
                h.violate(&format!("C20/{name}/empty-page-before-the-end"), format!("limit {limit:?} after {} of {n} items: empty page", seq.len()));
                return false;
            }
            if page.len() == remaining.min(eff) {
                h.out.count("full_pages_seen");
            }
            sizes.push(page.len());
            if page.is_empty() {
                break;
            }
            cursor = page.last().map(|x| x.0.clone());
            seq.extend(page);
            if pages > 200 {
                h.violate(&format!("C20/{name}/walk-does-not-terminate"), format!("limit {limit:?}"));
                return false;
            }
        }
        if eff == 0 {
            h.out.count("walks_with_limit_zero");
            continue;
        }
        // strictly monotone, no duplicates
        for w in seq.windows(2) {
            let ok = if descending { w[0].0 > w[1].0 } else { w[0].0 < w[1].0 };
            if !h.check(ok, &format!("C20/{name}/keys-not-strictly-ordered"), || format!("limit {limit:?}: {:?} then {:?}", w[0].0, w[1].0)) {
                return false;
            }
        }
        // every current item exactly once, in key order
        if !h.check(seq == expected, &format!("C20/{name}/walk-differs-from-item-set"), || {
            let got: Vec<&K> = seq.iter().map(|x| &x.0).collect();
            let want: Vec<&K> = expected.iter().map(|x| &x.0).collect();
            format!("limit {limit:?}: walked {} items, expected {n}; first difference at {:?}", seq.len(), got.iter().zip(want.iter()).position(|(a, b)| a != b))
        }) {
            return false;
        }
        h.out.count("walks_completed");
        if limit.is_none() {
            h.out.count("walks_with_default_limit");
            default_pages = Some(sizes.clone());
        }
        if limit == Some(10) {
            // the default page size is 10: an absent limit must page exactly like limit = 10
            if let Some(d) = &default_pages {
                if !h.check(*d == sizes, &format!("C20/{name}/default-page-size-not-10"), || format!("page sizes without limit {d:?}, with limit 10 {sizes:?}")) {
                    return false;
                }
            }
        }
        if limit.map(|l| l > 30).unwrap_or(false) {
            h.out.count("walks_with_limit_above_max");
        }
    }
    // agreement with the point queries
    for (k, v) in &expected {
        let p = point(k);
        h.out.oracle_checks += 1;
        if p.as_ref() != Some(v) {
            h.violate(&format!("C20/{name}/listed-value-differs-from-point-query"), format!("{k:?}: listed {v}, point query {p:?}"));
            return false;
        }
    }
    h.out.distinct(&(name.to_string(), n));
    h.out.count(&format!("listing_{name}"));
    if n > 30 {
        h.out.count("states_with_more_than_30_items");
    }
    if n == 0 {
        h.out.count("states_with_no_items");
    }
    true
}

fn thr() -> Threshold {
    Threshold::AbsolutePercentage { percentage: Decimal::percent(51) }
}

impl C20 {
    #[allow(clippy::too_many_lines)]
    fn run_listing(&self, h: &mut Hist, li: usize, n: usize) -> bool {
        let name = LISTINGS[li];
        let a = addrs();
        let mut c = Chain::new(1000, 1_700_000_000);
        let owner = c.owner.to_string();
        // random subset of addresses so that key order differs between histories
        let mut idx: Vec<usize> = (0..a.len()).collect();
        h.rng.shuffle(&mut idx);
        let pick: Vec<String> = idx.iter().take(n).map(|i| a[*i].clone()).collect();
        h.note(format!("{name} with {n} items"));
        match name {
            "cw20.AllAccounts" => {
                let bals: Vec<(String, u128)> = pick.iter().enumerate().map(|(i, x)| (x.clone(), (i as u128 * 7) % 5)).collect();
                let t = c.new_cw20(false, &bals, None);
                let expected: Vec<(String, String)> = bals.iter().map(|(x, b)| (x.clone(), b.to_string())).collect();
                let cc = &c;
                check_listing(
                    h,
                    name,
                    expected,
                    false,
                    &|cur, lim| {
                        cc.query::<cw20::AllAccountsResponse, _>(&t, &cw20_base::msg::QueryMsg::AllAccounts { start_after: cur, limit: lim }).map_vec(|r| r.accounts.into_iter().map(|x| (x.clone(), cc.cw20_balance(&t, &x).to_string())).collect())
                    },
                    &|k| Some(cc.cw20_balance(&t, k).to_string()),
                )
            }
            "cw20.AllAllowances" | "cw20.AllSpenderAllowances" => {
                let by_owner = name == "cw20.AllAllowances";
                let hub = mk_addr("hub");
                // every third account never held a token (no balance record): granting needs none
                let mut bals: Vec<(String, u128)> = pick.iter().enumerate().filter(|(i, _)| i % 3 != 1).map(|(_, x)| (x.clone(), 1000)).collect();
                if pick.len() > 1 {
                    h.out.count("allowance_owners_without_a_balance_record");
                }
                bals.push((hub.clone(), 1000));
                let t = c.new_cw20_admin(&bals);
                let mut expected = vec![];
                for (i, x) in pick.iter().enumerate() {
                    let exp = match i % 3 {
                        0 => None,
                        1 => Some(cw20::Expiration::AtHeight(5000 + i as u64)),
                        _ => Some(cw20::Expiration::Never {}),
                    };
                    let amt = Uint128::new(10 + i as u128);
                    let (o, s) = if by_owner { (hub.clone(), x.clone()) } else { (x.clone(), hub.clone()) };
                    let r = c.exec(&o, &t, &cw20::Cw20ExecuteMsg::IncreaseAllowance { spender: s, amount: amt, expires: exp }, &[]);
                    if !r.is_ok() {
                        h.out.inconclusive = Some("could not build allowance state".into());
                        return false;
                    }
                    expected.push((x.clone(), format!("{amt}/{:?}", Exp::from(&exp.unwrap_or_default()))));
                }
                // churn: every 5th allowance is fully revoked again, every 7th partially decreased, and the
                // opposite-direction allowance exists for some pairs (the listing must show current items only)
                let mut removed = 0;
                for (i, x) in pick.iter().enumerate() {
                    let (o, sp) = if by_owner { (hub.clone(), x.clone()) } else { (x.clone(), hub.clone()) };
                    if i % 3 == 0 {
                        let _ = c.exec(&sp, &t, &cw20::Cw20ExecuteMsg::IncreaseAllowance { spender: o.clone(), amount: Uint128::new(77), expires: None }, &[]);
                    }
                    if i % 5 == 1 {
                        let r = c.exec(&o, &t, &cw20::Cw20ExecuteMsg::DecreaseAllowance { spender: sp.clone(), amount: Uint128::new(1_000_000), expires: None }, &[]);
                        if r.is_ok() {
                            expected.retain(|e| e.0 != *x);
                            removed += 1;
                        }
                    } else if i % 7 == 2 {
                        let r = c.exec(&o, &t, &cw20::Cw20ExecuteMsg::DecreaseAllowance { spender: sp.clone(), amount: Uint128::new(3), expires: None }, &[]);
                        if r.is_ok() {
                            for e in expected.iter_mut() {
                                if e.0 == *x {
                                    let amt = 10 + i as u128 - 3;
                                    let tail = e.1.split_once('/').map(|p| p.1.to_string()).unwrap_or_default();
                                    e.1 = format!("{amt}/{tail}");
                                }
                            }
                        }
                    }
                }
                if removed > 0 {
                    h.out.count("listings_after_removals");
                }
                // some grants are used up completely by their spender: they stay current items with amount 0
                for (i, x) in pick.iter().enumerate() {
                    if i % 11 == 4 {
                        let (o, sp) = if by_owner { (hub.clone(), x.clone()) } else { (x.clone(), hub.clone()) };
                        let amt = 10 + i as u128;
                        let r = c.exec(&sp, &t, &cw20::Cw20ExecuteMsg::TransferFrom { owner: o.clone(), recipient: sp.clone(), amount: Uint128::new(amt) }, &[]);
                        if r.is_ok() {
                            for e in expected.iter_mut() {
                                if e.0 == *x {
                                    let tail = e.1.split_once('/').map(|p| p.1.to_string()).unwrap_or_default();
                                    e.1 = format!("0/{tail}");
                                }
                            }
                            h.out.count("allowances_used_up_completely_still_listed");
                        }
                    }
                }
                if h.idx % 3 == 2 {
                    // the token was deployed by a pre-0.14 release: no by-spender index exists; the real
                    // migrate has to build it (old version strings with one- and two-digit minors)
                    let v = *h.rng.pick(&["0.9.1", "0.2.3", "0.13.4", "0.10.0", "0.8.0-rc.1", "0.13.0"]);
                    if h.idx % 2 == 0 {
                        // the upgrade comes late: the grants with a deadline have lapsed by then (they stay listed)
                        c.advance(6000, 30_000);
                        h.out.count("migrations_with_lapsed_grants_in_the_table");
                    }
                    let keys: Vec<Vec<u8>> = c.dump(&t).into_iter().map(|kv| kv.0).filter(|k| k.windows(17).any(|w| w == b"allowance_spender")).collect();
                    for k in keys {
                        let _ = c.sudo(&t, &crate::chain::RawSudo::Remove { key: cosmwasm_std::Binary::from(k) });
                    }
                    let _ = c.sudo(&t, &crate::chain::RawSudo::SetVersion { contract: "crates.io:cw20-base".into(), version: v.into() });
                    let code = c.codes.cw20;
                    let r = c.migrate(&owner, &t, &cw20_base::msg::MigrateMsg {}, code);
                    if !r.is_ok() {
                        h.violate("C20/cw20.migrate/upgrade-from-older-version-failed", format!("migrate from {v}: {}", r.err_text()));
                        return false;
                    }
                    h.out.count("listings_after_migration_from_pre_0_14");
                    h.note(format!("token migrated from {v} (by-spender index rebuilt by migrate)"));
                }
                let expected_all = expected.clone();
                let cc = &c;
                let hubr = &hub;
                let walked = check_listing(
                    h,
                    name,
                    expected,
                    false,
                    &|cur, lim| {
                        if by_owner {
                            cc.query::<cw20::AllAllowancesResponse, _>(&t, &cw20_base::msg::QueryMsg::AllAllowances { owner: hubr.clone(), start_after: cur, limit: lim })
                                .map_vec(|r| r.allowances.into_iter().map(|x| (x.spender, format!("{}/{:?}", x.allowance, Exp::from(&x.expires)))).collect())
                        } else {
                            cc.query::<cw20::AllSpenderAllowancesResponse, _>(&t, &cw20_base::msg::QueryMsg::AllSpenderAllowances { spender: hubr.clone(), start_after: cur, limit: lim })
                                .map_vec(|r| r.allowances.into_iter().map(|x| (x.owner, format!("{}/{:?}", x.allowance, Exp::from(&x.expires)))).collect())
                        }
                    },
                    &|k| {
                        let (o, s) = if by_owner { (hubr.clone(), k.clone()) } else { (k.clone(), hubr.clone()) };
                        cc.query::<cw20::AllowanceResponse, _>(&t, &cw20_base::msg::QueryMsg::Allowance { owner: o, spender: s }).ok().map(|x| format!("{}/{:?}", x.allowance, Exp::from(&x.expires)))
                    },
                );
                if !walked {
                    return false;
                }
                // an allowance a client has just been given is revoked before the client asks for the next page
                let mut rest = expected_all;
                if rest.len() >= 3 {
                    rest.sort();
                    let victim = rest[rest.len() / 3].0.clone();
                    let (o, sp) = if by_owner { (hub.clone(), victim.clone()) } else { (victim.clone(), hub.clone()) };
                    let r = c.exec(&o, &t, &cw20::Cw20ExecuteMsg::DecreaseAllowance { spender: sp, amount: Uint128::new(u128::MAX), expires: None }, &[]);
                    if r.is_ok() {
                        rest.retain(|e| e.0 != victim);
                        let cc = &c;
                        let hubr = &hub;
                        return check_stale_cursor(h, name, rest, victim, &|cur, lim| {
                            if by_owner {
                                cc.query::<cw20::AllAllowancesResponse, _>(&t, &cw20_base::msg::QueryMsg::AllAllowances { owner: hubr.clone(), start_after: cur, limit: lim })
                                    .map_vec(|r| r.allowances.into_iter().map(|x| (x.spender, format!("{}/{:?}", x.allowance, Exp::from(&x.expires)))).collect())
                            } else {
                                cc.query::<cw20::AllSpenderAllowancesResponse, _>(&t, &cw20_base::msg::QueryMsg::AllSpenderAllowances { spender: hubr.clone(), start_after: cur, limit: lim })
                                    .map_vec(|r| r.allowances.into_iter().map(|x| (x.owner, format!("{}/{:?}", x.allowance, Exp::from(&x.expires)))).collect())
                            }
                        });
                    }
                }
                true
            }
            "subkeys.AllAllowances" | "subkeys.AllPermissions" => {
                let admin = mk_addr("sk-admin");
                let sk = match c.instantiate(c.codes.subkeys, &owner, &cw1_whitelist::msg::InstantiateMsg { admins: vec![admin.clone()], mutable: true }, "subkeys", None) {
                    Res::Ok(x) => x,
                    _ => return false,
                };
                let perms = name == "subkeys.AllPermissions";
                let mut expected = vec![];
                // about 40% extra entries that will be expired at query time, interleaved by address order;
                // every third history instead puts a CONTIGUOUS run of 30-40 expired entries (in key order)
                // in front of / between the live ones
                let mut pick = pick;
                let extra: Vec<String> = if perms {
                    vec![]
                } else if h.idx % 3 == 1 && n >= 1 {
                    let mut sorted: Vec<String> = a.clone();
                    sorted.sort();
                    let run = 30 + (h.idx as usize % 11);
                    let start = (h.idx as usize / 3) % 5;
                    let expired: Vec<String> = sorted.iter().skip(start).take(run).cloned().collect();
                    let live: Vec<String> = sorted.iter().take(start).chain(sorted.iter().skip(start + run)).take(n).cloned().collect();
                    pick = live;
                    h.out.count("listings_with_a_contiguous_run_of_30_or_more_expired_entries");
                    expired
                } else {
                    idx.iter().skip(n).take((n * 2 / 5).max(if n > 0 { 1 } else { 0 })).map(|i| a[*i].clone()).collect()
                };
                let n = pick.len();
                let _ = n;
                for (i, x) in pick.iter().enumerate() {
                    if perms {
                        let p = cw1_subkeys::state::Permissions { delegate: i % 2 == 0, redelegate: i % 3 == 0, undelegate: i % 5 == 0, withdraw: i % 7 == 0 };
                        let r = c.exec(&admin, &sk, &cw1_subkeys::msg::ExecuteMsg::<Empty>::SetPermissions { spender: x.clone(), permissions: p }, &[]);
                        if !r.is_ok() {
                            return false;
                        }
                        expected.push((x.clone(), format!("{p}")));
                    } else {
                        let exp = if i % 2 == 0 { None } else { Some(cw_utils::Expiration::AtHeight(900_000)) };
                        let r = c.exec(&admin, &sk, &cw1_subkeys::msg::ExecuteMsg::<Empty>::IncreaseAllowance { spender: x.clone(), amount: coin(5 + i as u128, "uatom"), expires: exp }, &[]);
                        if !r.is_ok() {
                            return false;
                        }
                        expected.push((x.clone(), format!("{}uatom/{:?}", 5 + i, Exp::from(&exp.unwrap_or_default()))));
                    }
                }
                for x in &extra {
                    let _ = c.exec(&admin, &sk, &cw1_subkeys::msg::ExecuteMsg::<Empty>::IncreaseAllowance { spender: x.clone(), amount: coin(3, "uatom"), expires: Some(cw_utils::Expiration::AtHeight(1003)) }, &[]);
                }
                if !perms {
                    let mut removed = 0;
                    for (i, x) in pick.iter().enumerate() {
                        if i % 5 == 1 {
                            if i % 2 == 1 {
                                // a grant of nothing in a second denomination leaves a zero coin behind; once the real
                                // grant is revoked nothing is left, and nothing may be listed
                                let _ = c.exec(&admin, &sk, &cw1_subkeys::msg::ExecuteMsg::<Empty>::IncreaseAllowance { spender: x.clone(), amount: coin(0, "ubtc"), expires: None }, &[]);
                                h.out.count("revoked_subkey_grants_with_a_zero_coin_left");
                            }
                            let r = c.exec(&admin, &sk, &cw1_subkeys::msg::ExecuteMsg::<Empty>::DecreaseAllowance { spender: x.clone(), amount: coin(1_000_000, "uatom"), expires: None }, &[]);
                            if r.is_ok() {
                                expected.retain(|e| e.0 != *x);
                                removed += 1;
                            }
                        }
                    }
                    if removed > 0 {
                        h.out.count("listings_after_removals");
                    }
                }
                if !extra.is_empty() {
                    h.out.count("listings_with_expired_entries_interleaved");
                }
                c.advance(10, 60); // the extra entries are expired now
                let cc = &c;
                let fmt_allow = |b: &cw_utils::NativeBalance, e: &cw_utils::Expiration| format!("{}/{:?}", b.0.iter().map(|c| format!("{}{}", c.amount, c.denom)).collect::<Vec<_>>().join(","), Exp::from(e));
                check_listing(
                    h,
                    name,
                    expected,
                    false,
                    &|cur, lim| {
                        if perms {
                            cc.query::<cw1_subkeys::msg::AllPermissionsResponse, _>(&sk, &cw1_subkeys::msg::QueryMsg::<Empty>::AllPermissions { start_after: cur, limit: lim })
                                .map_vec(|r| r.permissions.into_iter().map(|x| (x.spender, format!("{}", x.permissions))).collect())
                        } else {
                            cc.query::<cw1_subkeys::msg::AllAllowancesResponse, _>(&sk, &cw1_subkeys::msg::QueryMsg::<Empty>::AllAllowances { start_after: cur, limit: lim })
                                .map_vec(|r| r.allowances.into_iter().map(|x| (x.spender, fmt_allow(&x.balance, &x.expires))).collect())
                        }
                    },
                    &|k| {
                        if perms {
                            cc.query::<cw1_subkeys::state::Permissions, _>(&sk, &cw1_subkeys::msg::QueryMsg::<Empty>::Permissions { spender: k.clone() }).ok().map(|p| format!("{p}"))
                        } else {
                            cc.query::<cw1_subkeys::state::Allowance, _>(&sk, &cw1_subkeys::msg::QueryMsg::<Empty>::Allowance { spender: k.clone() }).ok().map(|x| fmt_allow(&x.balance, &x.expires))
                        }
                    },
                )
            }
            _ if name.starts_with("fixed.") || name.starts_with("flex.") => {
                let flex = name.starts_with("flex.");
                let what = name.split('.').nth(1).unwrap();
                // voters: for ListVotes / ListVoters the listing size is the number of voters
                let nvoters = match what {
                    "ListVotes" | "ListVoters" => n.max(1),
                    _ => 3,
                };
                let voters: Vec<String> = idx.iter().take(nvoters).map(|i| a[*i].clone()).collect();
                // voters of a group-backed multisig may carry no weight: half of the flex voter listings sit on a group
                // two thirds of whose members are weightless (in random key positions)
                let weightless = flex && what == "ListVoters" && h.idx % 2 == 1;
                if weightless {
                    h.out.count("flex_voter_listings_with_weightless_members");
                }
                let wt = move |i: usize| -> u64 {
                    if weightless && i > 0 && i % 3 != 2 {
                        0
                    } else {
                        1 + i as u64 % 4
                    }
                };
                let ms = if flex {
                    let g = match c.instantiate(c.codes.group, &owner, &cw4_group::msg::InstantiateMsg { admin: None, members: voters.iter().enumerate().map(|(i, x)| Member { addr: x.clone(), weight: wt(i) }).collect() }, "g", None) {
                        Res::Ok(x) => x,
                        _ => return false,
                    };
                    c.advance(1, 5);
                    match c.instantiate(c.codes.flex, &owner, &cw3_flex_multisig::msg::InstantiateMsg { group_addr: g.to_string(), threshold: thr(), max_voting_period: Duration::Height(100_000), executor: None, proposal_deposit: None }, "flex", None) {
                        Res::Ok(x) => x,
                        _ => return false,
                    }
                } else {
                    match c.instantiate(
                        c.codes.fixed,
                        &owner,
                        &cw3_fixed_multisig::msg::InstantiateMsg { voters: voters.iter().enumerate().map(|(i, x)| cw3_fixed_multisig::msg::Voter { addr: x.clone(), weight: 1 + i as u64 % 4 }).collect(), threshold: thr(), max_voting_period: Duration::Height(100_000) },
                        "fixed",
                        None,
                    ) {
                        Res::Ok(x) => x,
                        _ => return false,
                    }
                };
                c.advance(1, 5);
                use cw3_fixed_multisig::msg::{ExecuteMsg as X, QueryMsg as Q};
                match what {
                    "ListProposals" | "ReverseProposals" => {
                        for i in 0..n {
                            let r = c.exec(&voters[i % voters.len()], &ms, &X::Propose { title: format!("t{i}"), description: "d".into(), msgs: vec![], latest: None }, &[]);
                            if !r.is_ok() {
                                h.out.inconclusive = Some(format!("could not create proposal: {}", r.err_text()));
                                return false;
                            }
                        }
                        let cc = &c;
                        let conv = |p: ProposalResponse| (p.id, format!("{}|{:?}|{}", p.title, p.status, p.proposer));
                        let expected: Vec<(u64, String)> = (1..=n as u64)
                            .filter_map(|id| cc.query::<ProposalResponse, _>(&ms, &Q::Proposal { proposal_id: id }).ok().map(conv))
                            .collect();
                        if !h.check(expected.len() == n, &format!("C20/{name}/proposal-missing-by-id"), || format!("{} of {n} proposals answer the point query", expected.len())) {
                            return false;
                        }
                        let rev = what == "ReverseProposals";
                        check_listing(
                            h,
                            name,
                            expected,
                            rev,
                            &|cur, lim| {
                                if rev {
                                    cc.query::<ProposalListResponse, _>(&ms, &Q::ReverseProposals { start_before: cur, limit: lim }).map_vec(|r| r.proposals.into_iter().map(conv).collect())
                                } else {
                                    cc.query::<ProposalListResponse, _>(&ms, &Q::ListProposals { start_after: cur, limit: lim }).map_vec(|r| r.proposals.into_iter().map(conv).collect())
                                }
                            },
                            &|k| cc.query::<ProposalResponse, _>(&ms, &Q::Proposal { proposal_id: *k }).ok().map(conv).map(|x| x.1),
                        )
                    }
                    "ListVotes" => {
                        let r = c.exec(&voters[0], &ms, &X::Propose { title: "t".into(), description: "d".into(), msgs: vec![], latest: None }, &[]);
                        if !r.is_ok() {
                            return false;
                        }
                        let votes = [Vote::Yes, Vote::No, Vote::Abstain, Vote::Veto];
                        for (i, v) in voters.iter().enumerate().skip(1).take(n.saturating_sub(1)) {
                            let r = c.exec(v, &ms, &X::Vote { proposal_id: 1, vote: votes[i % 4] }, &[]);
                            if !r.is_ok() {
                                h.out.inconclusive = Some(format!("could not cast vote: {}", r.err_text()));
                                return false;
                            }
                        }
                        // with n == 0 there is still the proposer's ballot: the listing has max(n,1) items
                        let cc = &c;
                        let voters_r = &voters;
                        let expected: Vec<(String, String)> = voters_r
                            .iter()
                            .take(n.max(1))
                            .filter_map(|v| cc.query::<VoteResponse, _>(&ms, &Q::Vote { proposal_id: 1, voter: v.clone() }).ok().and_then(|r| r.vote).map(|b| (b.voter, format!("{:?}/{}", b.vote, b.weight))))
                            .collect();
                        check_listing(
                            h,
                            name,
                            expected,
                            false,
                            &|cur, lim| cc.query::<VoteListResponse, _>(&ms, &Q::ListVotes { proposal_id: 1, start_after: cur, limit: lim }).map_vec(|r| r.votes.into_iter().map(|b| (b.voter, format!("{:?}/{}", b.vote, b.weight))).collect()),
                            &|k| cc.query::<VoteResponse, _>(&ms, &Q::Vote { proposal_id: 1, voter: k.clone() }).ok().and_then(|r| r.vote).map(|b| format!("{:?}/{}", b.vote, b.weight)),
                        )
                    }
                    _ => {
                        let cc = &c;
                        let expected: Vec<(String, String)> = voters.iter().enumerate().map(|(i, x)| (x.clone(), wt(i).to_string())).collect();
                        check_listing(
                            h,
                            name,
                            expected,
                            false,
                            &|cur, lim| cc.query::<VoterListResponse, _>(&ms, &Q::ListVoters { start_after: cur, limit: lim }).map_vec(|r| r.voters.into_iter().map(|v| (v.addr, v.weight.to_string())).collect()),
                            &|k| cc.query::<VoterResponse, _>(&ms, &Q::Voter { address: k.clone() }).ok().and_then(|r| r.weight).map(|w| w.to_string()),
                        )
                    }
                }
            }
            "group.ListMembers" => {
                let g = match c.instantiate(c.codes.group, &owner, &cw4_group::msg::InstantiateMsg { admin: Some(owner.clone()), members: pick.iter().enumerate().map(|(i, x)| Member { addr: x.clone(), weight: i as u64 % 6 }).collect() }, "g", None) {
                    Res::Ok(x) => x,
                    _ => return false,
                };
                let mut expected: Vec<(String, String)> = pick.iter().enumerate().map(|(i, x)| (x.clone(), (i as u64 % 6).to_string())).collect();
                // churn: remove every 5th member, re-weight every 7th
                c.advance(1, 5);
                let remove: Vec<String> = pick.iter().enumerate().filter(|(i, _)| i % 5 == 1).map(|(_, x)| x.clone()).collect();
                let add: Vec<Member> = pick.iter().enumerate().filter(|(i, _)| i % 7 == 2).map(|(_, x)| Member { addr: x.clone(), weight: 99 }).collect();
                if !remove.is_empty() || !add.is_empty() {
                    let r = c.exec(&owner, &g, &cw4_group::msg::ExecuteMsg::UpdateMembers { remove: remove.clone(), add: add.clone() }, &[]);
                    if r.is_ok() {
                        for m in &add {
                            for e in expected.iter_mut() {
                                if e.0 == m.addr {
                                    e.1 = "99".into();
                                }
                            }
                        }
                        expected.retain(|e| !remove.contains(&e.0));
                        h.out.count("listings_after_removals");
                    }
                }
                {
                    let cc = &c;
                    if !check_listing(
                        h,
                        name,
                        expected.clone(),
                        false,
                        &|cur, lim| cc.query::<MemberListResponse, _>(&g, &cw4_group::msg::QueryMsg::ListMembers { start_after: cur, limit: lim }).map_vec(|r| r.members.into_iter().map(|m| (m.addr, m.weight.to_string())).collect()),
                        &|k| cc.query::<MemberResponse, _>(&g, &cw4_group::msg::QueryMsg::Member { addr: k.clone(), at_height: None }).ok().and_then(|r| r.weight).map(|w| w.to_string()),
                    ) {
                        return false;
                    }
                }
                // a member a client has just been given is removed before the client asks for the next page
                if expected.len() >= 3 {
                    expected.sort();
                    let victim = expected[expected.len() / 3].0.clone();
                    c.advance(1, 5);
                    let r = c.exec(&owner, &g, &cw4_group::msg::ExecuteMsg::UpdateMembers { remove: vec![victim.clone()], add: vec![] }, &[]);
                    if r.is_ok() {
                        expected.retain(|e| e.0 != victim);
                        let cc = &c;
                        return check_stale_cursor(h, name, expected, victim, &|cur, lim| {
                            cc.query::<MemberListResponse, _>(&g, &cw4_group::msg::QueryMsg::ListMembers { start_after: cur, limit: lim }).map_vec(|r| r.members.into_iter().map(|m| (m.addr, m.weight.to_string())).collect())
                        });
                    }
                }
                true
            }
            "stake.ListMembers" => {
                let st = match c.instantiate(
                    c.codes.stake,
                    &owner,
                    &cw4_stake::msg::InstantiateMsg { denom: cw20::Denom::Native("ustake".into()), tokens_per_weight: Uint128::new(10), min_bond: Uint128::new(10), unbonding_period: Duration::Height(5), admin: None },
                    "st",
                    None,
                ) {
                    Res::Ok(x) => x,
                    _ => return false,
                };
                let mut expected = vec![];
                for (i, x) in pick.iter().enumerate() {
                    let amt = 10 + (i as u128 % 9) * 10;
                    c.fund(x, amt, "ustake");
                    let r = c.exec(x, &st, &cw4_stake::msg::ExecuteMsg::Bond {}, &[coin(amt, "ustake")]);
                    if !r.is_ok() {
                        return false;
                    }
                    expected.push((x.clone(), (amt / 10).to_string()));
                }
                c.advance(1, 5);
                for (i, x) in pick.iter().enumerate() {
                    if i % 5 == 1 {
                        let amt = 10 + (i as u128 % 9) * 10;
                        let r = c.exec(x, &st, &cw4_stake::msg::ExecuteMsg::Unbond { tokens: Uint128::new(amt) }, &[]);
                        if r.is_ok() {
                            expected.retain(|e| e.0 != *x);
                            h.out.count("listings_after_removals");
                        }
                    }
                }
                let cc = &c;
                check_listing(
                    h,
                    name,
                    expected,
                    false,
                    &|cur, lim| cc.query::<MemberListResponse, _>(&st, &cw4_stake::msg::QueryMsg::ListMembers { start_after: cur, limit: lim }).map_vec(|r| r.members.into_iter().map(|m| (m.addr, m.weight.to_string())).collect()),
                    &|k| cc.query::<MemberResponse, _>(&st, &cw4_stake::msg::QueryMsg::Member { addr: k.clone(), at_height: None }).ok().and_then(|r| r.weight).map(|w| w.to_string()),
                )
            }
            _ => {
                // ics20.ListAllowed
                let gov = mk_addr("gov");
                let ics = match c.instantiate(c.codes.ics20, &owner, &cw20_ics20::msg::InitMsg { default_timeout: 100, gov_contract: gov.clone(), allowlist: vec![], default_gas_limit: None }, "ics", None) {
                    Res::Ok(x) => x,
                    _ => return false,
                };
                let mut expected = vec![];
                for (i, x) in pick.iter().enumerate() {
                    let gas = if i % 3 == 0 { None } else { Some(1000 + i as u64) };
                    let r = c.exec(&gov, &ics, &cw20_ics20::msg::ExecuteMsg::Allow(cw20_ics20::msg::AllowMsg { contract: x.clone(), gas_limit: gas }), &[]);
                    if !r.is_ok() {
                        return false;
                    }
                    expected.push((x.clone(), format!("{gas:?}")));
                }
                let _ = to_json_binary(&Empty {});
                let _ = Addr::unchecked("x");
                let cc = &c;
                check_listing(
                    h,
                    name,
                    expected,
                    false,
                    &|cur, lim| cc.query::<cw20_ics20::msg::ListAllowedResponse, _>(&ics, &cw20_ics20::msg::QueryMsg::ListAllowed { start_after: cur, limit: lim }).map_vec(|r| r.allow.into_iter().map(|x| (x.contract, format!("{:?}", x.gas_limit))).collect()),
                    &|k| cc.query::<cw20_ics20::msg::AllowedResponse, _>(&ics, &cw20_ics20::msg::QueryMsg::Allowed { contract: k.clone() }).ok().filter(|r| r.is_allowed).map(|r| format!("{:?}", r.gas_limit)),
                )
            }
        }
    }
}

trait MapVec<T> {
    fn map_vec<U>(self, f: impl FnOnce(T) -> U) -> Res<U>;
}
impl<T> MapVec<T> for Res<T> {
    fn map_vec<U>(self, f: impl FnOnce(T) -> U) -> Res<U> {
        match self {
            Res::Ok(t) => Res::Ok(f(t)),
            Res::Err(e) => Res::Err(e),
            Res::Abort(e) => Res::Abort(e),
        }
    }
}

impl Monitor for C20 {
    fn id(&self) -> &'static str {
        "C20"
    }
    fn engine(&self) -> &'static str {
        "cwv-app"
    }
    fn histories(&self, tier: Tier) -> u64 {
        // every listing x every boundary size, then random sizes
        (LISTINGS.len() * SIZES.len()) as u64 + tier.pick(160, 60_000)
    }
    fn mandatory(&self) -> Vec<&'static str> {
        let mut v = vec!["walks_completed", "walks_with_default_limit", "walks_with_limit_above_max", "walks_with_limit_zero", "states_with_more_than_30_items", "states_with_no_items", "listings_with_expired_entries_interleaved", "listings_after_removals", "listings_after_migration_from_pre_0_14", "listings_with_a_contiguous_run_of_30_or_more_expired_entries", "walks_continued_from_a_removed_item", "migrations_with_lapsed_grants_in_the_table", "allowance_owners_without_a_balance_record"];
        v.extend([
            "listing_cw20.AllAccounts",
            "listing_cw20.AllAllowances",
            "listing_cw20.AllSpenderAllowances",
            "listing_subkeys.AllAllowances",
            "listing_subkeys.AllPermissions",
            "listing_fixed.ListProposals",
            "listing_fixed.ReverseProposals",
            "listing_fixed.ListVotes",
            "listing_fixed.ListVoters",
            "listing_flex.ListProposals",
            "listing_flex.ReverseProposals",
            "listing_flex.ListVotes",
            "listing_flex.ListVoters",
            "flex_voter_listings_with_weightless_members",
            "listing_group.ListMembers",
            "listing_stake.ListMembers",
            "listing_ics20.ListAllowed",
        ]);
        v
    }
    fn exhaustive_part(&self) -> Option<&'static str> {
        Some("all 16 listings x item counts {0,1,9,10,11,29,30,31,32,65} x limits {absent,0,1,2,3,7,10,11,29,30,31,100,255,256,257,1024,65536,65537,2^31,2^32-256,u32::MAX}, every cursor taken from the previous page")
    }
    fn rule(&self) -> &'static str {
        "for each of the 16 paginated listings of the suite a state with N items is built through the real execute messages inside the AppDriver (random address subsets so key order varies; subkeys allowances with ~40% expired entries interleaved; allowances, subkey allowances, group and stake members are churned afterwards: every 5th item removed again, some re-weighted / partially decreased, opposite-direction allowances added), then the listing is walked to exhaustion with 21 different limits, always using the last returned key as cursor. Every page must have exactly min(limit|10, 30, remaining) items, keys strictly ordered (descending for ReverseProposals), the walk must equal the known item set, and every listed value must equal the point query. For group members and cw20 allowances the item a client was given last is then removed through the real execute message and the listing continued from its key: every later item must still come exactly once. Half of the migrated cw20 tokens are upgraded after their dated grants lapsed. distinct = (listing, item count)"
    }
    fn assumptions(&self) -> Vec<&'static str> {
        vec!["item sets are the ones the harness created through execute messages (cross-checked with the point queries)", "a limit of 0 returns an empty page (nothing else is demanded for it)"]
    }
    fn run_history(&self, h: &mut Hist) {
        let base = (LISTINGS.len() * SIZES.len()) as u64;
        let (li, n) = if h.idx < base {
            ((h.idx as usize) / SIZES.len(), SIZES[(h.idx as usize) % SIZES.len()])
        } else {
            (h.rng.below_usize(LISTINGS.len()), h.rng.range(0, 75) as usize)
        };
        let _ = self.run_listing(h, li, n);
    }
}

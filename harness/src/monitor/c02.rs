//! C02 — cw20: balances move only by the holder or within a valid allowance.

use crate::core::{Hist, Monitor, Tier};
use crate::cw20w::*;
use crate::direct::Res;
use cosmwasm_std::{from_json, CosmosMsg, ReplyOn, Response, WasmMsg};
use std::collections::{BTreeMap, BTreeSet};

pub struct C02;

/// 256-bit counter (cumulative grants can exceed u128 after decrease/increase cycles)
#[derive(Clone, Copy, Default, PartialEq, Eq, PartialOrd, Ord, Debug)]
struct Big(u128, u128);
impl Big {
    fn add(&mut self, x: u128) {
        let (lo, c) = self.1.overflowing_add(x);
        self.1 = lo;
        if c {
            self.0 += 1;
        }
    }
}

#[derive(Default)]
struct Ledger {
    granted: BTreeMap<(String, String), Big>,
    drawn: BTreeMap<(String, String), Big>,
}

fn valid(a: &str) -> bool {
    pool().actors.iter().any(|x| x == a) || a.starts_with("cosmwasm1") && a.len() > 40 && a.chars().all(|c| c.is_ascii_lowercase() || c.is_ascii_digit())
}

fn draw_parts(op: &Op) -> Option<(&String, u128)> {
    match op {
        Op::TransferFrom { owner, amt, .. }
        | Op::SendFrom { owner, amt, .. }
        | Op::BurnFrom { owner, amt } => Some((owner, *amt)),
        _ => None,
    }
}

fn check_messages(h: &mut Hist, sender: &str, op: &Op, resp: &Response) -> bool {
    let kind = op.kind();
    match op {
        Op::Send { to, amt, payload } | Op::SendFrom { to, amt, payload, .. } => {
            if !h.check(resp.messages.len() == 1, &format!("C02/notify/{kind}/not-exactly-one-message"), || {
                format!("successful {kind} produced {} messages", resp.messages.len())
            }) {
                return false;
            }
            let sm = &resp.messages[0];
            let plain = sm.reply_on == ReplyOn::Never && sm.gas_limit.is_none();
            if !h.check(plain, &format!("C02/notify/{kind}/submessage-not-plain"), || {
                format!("notification has reply_on={:?} gas_limit={:?}", sm.reply_on, sm.gas_limit)
            }) {
                return false;
            }
            match &sm.msg {
                CosmosMsg::Wasm(WasmMsg::Execute {
                    contract_addr,
                    msg,
                    funds,
                }) => {
                    let v: Result<serde_json::Value, _> = from_json(msg);
                    let Ok(v) = v else {
                        h.violate(&format!("C02/notify/{kind}/payload-not-json"), "not json".into());
                        return false;
                    };
                    let r = &v["receive"];
                    let keys_ok = v.as_object().map(|o| o.len() == 1).unwrap_or(false)
                        && r.as_object().map(|o| o.len() == 3).unwrap_or(false);
                    let b64 = cosmwasm_std::Binary::from(payload.clone()).to_base64();
                    let ok = contract_addr == to
                        && funds.is_empty()
                        && keys_ok
                        && r["sender"].as_str() == Some(sender)
                        && r["amount"].as_str() == Some(amt.to_string().as_str())
                        && r["msg"].as_str() == Some(b64.as_str());
                    if !h.check(ok, &format!("C02/notify/{kind}/wrong-notification"), || {
                        format!("expected receive{{sender={sender},amount={amt},msg={b64}}} to {to} without funds; got {v} to {contract_addr} funds={funds:?}")
                    }) {
                        return false;
                    }
                    h.out.count("notifications_checked");
                }
                other => {
                    h.violate(
                        &format!("C02/notify/{kind}/not-a-wasm-execute"),
                        format!("message is {other:?}"),
                    );
                    return false;
                }
            }
        }
        _ => {
            if !h.check(resp.messages.is_empty(), &format!("C02/notify/{kind}/unexpected-message"), || {
                format!("{kind} emitted messages: {:?}", resp.messages)
            }) {
                return false;
            }
        }
    }
    true
}

impl C02 {
    fn step(
        &self,
        h: &mut Hist,
        c: &mut Cw20,
        led: &mut Ledger,
        pre: &mut Snap,
        sender: &str,
        op: &Op,
    ) -> bool {
        let height = c.w.block.height;
        let now = c.w.block.time.nanos();
        let r = c.exec(sender, op);
        log_op(h, c, sender, op, &r);
        h.out.evaluations += 1;
        if let Res::Abort(_) = &r {
            h.out.abort(&crate::direct::last_panic_site());
        }
        let post = c.snap(true);
        let kind = op.kind();
        let ok = r.is_ok();

        // classification for coverage
        let mut rel = 9u8; // relation of amount to allowance: 0 below,1 equal,2 above
        let mut expired_pre = false;
        if let Some((owner, x)) = draw_parts(op) {
            let (a, e) = pre
                .allow
                .get(&(owner.clone(), sender.to_string()))
                .copied()
                .unwrap_or((0, Exp::Never));
            rel = if x < a { 0 } else if x == a { 1 } else { 2 };
            expired_pre = e.expired(height, now);
            if ok {
                h.out.count("draws_ok");
                if x == a && a > 0 {
                    h.out.count("draws_of_exactly_the_remaining_allowance");
                }
            } else {
                if x == a.wrapping_add(1) {
                    h.out.count("draws_one_over_allowance_rejected");
                }
                if expired_pre && a >= x {
                    h.out.count("draws_on_expired_allowance_rejected");
                    match e {
                        Exp::H(hh) if hh == height => h.out.count("draws_at_exact_expiry_height_rejected"),
                        Exp::T(tt) if tt == now => h.out.count("draws_at_exact_expiry_time_rejected"),
                        _ => {}
                    }
                }
            }
            if ok {
                match e {
                    Exp::H(hh) if hh == height + 1 => h.out.count("draws_one_block_before_expiry_ok"),
                    Exp::T(tt) if tt == now + 1 => h.out.count("draws_one_ns_before_expiry_ok"),
                    _ => {}
                }
            }
        }
        h.out.distinct(&(kind, r.class(), rel, expired_pre));
        h.out.state(&(
            post.allow.values().filter(|a| a.0 > 0).count(),
            post.allow.values().filter(|a| a.1 != Exp::Never).count(),
            post.bal.values().filter(|b| **b > 0).count(),
        ));

        // (0) nobody moves, sends or burns more than the source account holds, also when source and target
        //     coincide: the amount named in a transfer / notification is an amount that really was there
        if ok {
            let src_amt: Option<(String, u128)> = match op {
                Op::Transfer { amt, .. } | Op::Send { amt, .. } | Op::Burn { amt } => Some((sender.to_string(), *amt)),
                Op::TransferFrom { owner, amt, .. } | Op::SendFrom { owner, amt, .. } | Op::BurnFrom { owner, amt } => Some((owner.clone(), *amt)),
                _ => None,
            };
            if let Some((src, amt)) = src_amt {
                if let Some(held) = pre.bal.get(&src) {
                    h.out.oracle_checks += 1;
                    if amt > *held {
                        h.violate(&format!("C02/move/{kind}/moved-more-than-the-source-held"), format!("{kind} of {amt} from {src} accepted, but {src} held only {held}"));
                        return false;
                    }
                    if amt == *held && amt > 0 {
                        h.out.count("moves_of_exactly_the_whole_balance");
                    }
                }
            }
        }

        // (0b) a successful move changes the balances of source and target by exactly the amount named (net zero
        //      when they coincide) and nobody else's: the amount notified is the amount moved
        if ok {
            let mv: Option<(String, Option<String>, u128)> = match op {
                Op::Transfer { to, amt } | Op::Send { to, amt, .. } => Some((sender.to_string(), Some(to.clone()), *amt)),
                Op::TransferFrom { owner, to, amt } | Op::SendFrom { owner, to, amt, .. } => Some((owner.clone(), Some(to.clone()), *amt)),
                Op::Burn { amt } => Some((sender.to_string(), None, *amt)),
                Op::BurnFrom { owner, amt } => Some((owner.clone(), None, *amt)),
                _ => None,
            };
            if let Some((src, dst, amt)) = mv {
                let keys: BTreeSet<&String> = pre.bal.keys().chain(post.bal.keys()).collect();
                for a in keys {
                    let before = *pre.bal.get(a).unwrap_or(&0);
                    let after = *post.bal.get(a).unwrap_or(&0);
                    let mut want = Some(before);
                    if *a == src {
                        want = want.and_then(|x| x.checked_sub(amt));
                    }
                    if dst.as_ref() == Some(a) {
                        want = want.and_then(|x| x.checked_add(amt));
                    }
                    h.out.oracle_checks += 1;
                    if want != Some(after) {
                        h.violate(&format!("C02/move/{kind}/balances-not-changed-by-exactly-the-amount"), format!("{kind} of {amt} from {src} to {dst:?}: balance of {a} {before} -> {after}, expected {want:?}"));
                        return false;
                    }
                }
            }
        }

        // (1) a balance decreases only by its holder, or by a covered, unexpired draw
        for (a, b0) in &pre.bal {
            let b1 = *post.bal.get(a).unwrap_or(&0);
            h.out.oracle_checks += 1;
            if b1 < *b0 {
                let dec = b0 - b1;
                let by_holder = ok
                    && a == sender
                    && matches!(op, Op::Transfer { .. } | Op::Send { .. } | Op::Burn { .. });
                let by_draw = match draw_parts(op) {
                    Some((owner, x)) if ok && owner == a => {
                        let (al, e) = pre
                            .allow
                            .get(&(owner.clone(), sender.to_string()))
                            .copied()
                            .unwrap_or((0, Exp::Never));
                        if !valid(sender) || !pre.allow.contains_key(&(owner.clone(), sender.to_string())) {
                            // sender outside the observed pool: cannot judge allowance
                            true
                        } else if e.expired(height, now) {
                            h.violate(
                                &format!("C02/authority/{kind}/draw-on-expired-allowance"),
                                format!("{sender} drew {x} from {a} with allowance {al} expired {e:?} at h={height} t={now}"),
                            );
                            return false;
                        } else if al < x {
                            h.violate(
                                &format!("C02/authority/{kind}/draw-exceeds-allowance"),
                                format!("{sender} drew {x} from {a} with allowance only {al}"),
                            );
                            return false;
                        } else {
                            true
                        }
                    }
                    _ => false,
                };
                if !(by_holder || by_draw) {
                    h.violate(
                        &format!("C02/authority/{kind}/balance-left-without-authority"),
                        format!("balance of {a} fell by {dec} in {kind} by {sender} (ok={ok})"),
                    );
                    return false;
                }
                let x = match op {
                    Op::Transfer { amt, .. } | Op::Send { amt, .. } | Op::Burn { amt } => *amt,
                    _ => draw_parts(op).map(|d| d.1).unwrap_or(0),
                };
                // self-moves net to zero and never show up here; otherwise exactly x leaves
                if !h.check(dec == x, &format!("C02/authority/{kind}/moved-amount-differs"), || {
                    format!("balance of {a} fell by {dec}, call amount was {x}")
                }) {
                    return false;
                }
            }
        }

        // a successful draw: allowance existed, unexpired, >= x; afterwards exactly a-x, same expiry
        if let (true, Some((owner, x))) = (ok, draw_parts(op)) {
            if let Some((al, e)) = pre.allow.get(&(owner.clone(), sender.to_string())).copied() {
                if e.expired(height, now) && (al, e) != (0, Exp::Never) {
                    h.violate(
                        &format!("C02/draw/{kind}/succeeded-on-expired-allowance"),
                        format!("draw of {x} succeeded, allowance ({al},{e:?}) expired at h={height} t={now}"),
                    );
                    return false;
                }
                if !h.check(al >= x, &format!("C02/draw/{kind}/succeeded-above-allowance"), || {
                    format!("draw of {x} succeeded with allowance {al}")
                }) {
                    return false;
                }
                let after = post
                    .allow
                    .get(&(owner.clone(), sender.to_string()))
                    .copied()
                    .unwrap_or((0, Exp::Never));
                if !h.check(after == (al - x, e), &format!("C02/draw/{kind}/allowance-not-lowered-exactly"), || {
                    format!("allowance ({al},{e:?}) after drawing {x} is {after:?}")
                }) {
                    return false;
                }
                // the owner's balance fell by x (unless it came back in the same call)
                let comes_back = match op {
                    Op::TransferFrom { to, .. } | Op::SendFrom { to, .. } => to == owner,
                    _ => false,
                };
                let b0 = *pre.bal.get(owner).unwrap_or(&0);
                let b1 = *post.bal.get(owner).unwrap_or(&0);
                let want = if comes_back { Some(b0) } else { b0.checked_sub(x) };
                if !h.check(want == Some(b1), &format!("C02/draw/{kind}/owner-balance-wrong"), || {
                    format!("owner balance {b0} -> {b1} after draw of {x} (comes_back={comes_back})")
                }) {
                    return false;
                }
                let key = (owner.clone(), sender.to_string());
                led.drawn.entry(key.clone()).or_default().add(x);
                let g = led.granted.get(&key).copied().unwrap_or_default();
                let d = led.drawn.get(&key).copied().unwrap_or_default();
                if !h.check(d <= g, "C02/cumulative/drawn-exceeds-granted", || {
                    format!("{sender} has drawn {d:?} from {owner}, who only ever granted {g:?}")
                }) {
                    return false;
                }
            }
        }

        // (3) allowances change only by owner increase/decrease or spender draw
        for (k, a0) in &pre.allow {
            let a1 = *post.allow.get(k).unwrap_or(&(0, Exp::Never));
            h.out.oracle_checks += 1;
            let (o, s) = k;
            let expected: Vec<(u128, Exp)> = if !ok {
                vec![*a0]
            } else {
                match op {
                    Op::Inc { spender, amt, exp } if o == sender && spender == s => {
                        match a0.0.checked_add(*amt) {
                            Some(n) => vec![(n, exp.unwrap_or(a0.1))],
                            None => {
                                h.violate("C02/allowance/increase-overflow-accepted", format!("{a0:?} + {amt}"));
                                return false;
                            }
                        }
                    }
                    Op::Dec { spender, amt, exp } if o == sender && spender == s => {
                        if *amt < a0.0 {
                            vec![(a0.0 - amt, exp.unwrap_or(a0.1))]
                        } else {
                            vec![(0, Exp::Never)]
                        }
                    }
                    Op::TransferFrom { owner, amt, .. }
                    | Op::SendFrom { owner, amt, .. }
                    | Op::BurnFrom { owner, amt }
                        if owner == o && sender == s =>
                    {
                        vec![(a0.0.wrapping_sub(*amt), a0.1)]
                    }
                    _ => vec![*a0],
                }
            };
            if !expected.contains(&a1) {
                let site = match op {
                    Op::Inc { .. } | Op::Dec { .. } if o == sender => "own-update-wrong",
                    Op::TransferFrom { .. } | Op::SendFrom { .. } | Op::BurnFrom { .. } if s == sender => "draw-update-wrong",
                    _ => "changed-by-unrelated-call",
                };
                h.violate(
                    &format!("C02/allowance/{kind}/{site}"),
                    format!("allowance {o}->{s}: {a0:?} -> {a1:?} in {kind} by {sender} (ok={ok}); expected one of {expected:?}"),
                );
                return false;
            }
        }
        // ledger: successful increase by the owner
        if let (true, Op::Inc { spender, amt, .. }) = (ok, op) {
            led.granted
                .entry((sender.to_string(), spender.clone()))
                .or_default()
                .add(*amt);
            h.out.count("increases_ok");
        }
        // decrease must saturate, not fail
        if let Op::Dec { spender, amt, exp } = op {
            if let Some(a0) = pre.allow.get(&(sender.to_string(), spender.clone())) {
                let exp_ok = match exp {
                    None => true,
                    Some(e) => !e.expired(height, now),
                };
                let exists_for_sure = a0.0 > 0 || a0.1 != Exp::Never;
                if exists_for_sure && spender != sender && (exp_ok || *amt >= a0.0) {
                    if *amt > a0.0 {
                        h.out.count("decreases_beyond_allowance");
                    }
                    // when the amount is below the allowance an already-reached new expiry is refused
                    let must = exp_ok;
                    if must
                        && !h.check(ok, "C02/allowance/decrease_allowance/refused-instead-of-saturating", || {
                            format!("decrease of {amt} on existing allowance {a0:?} failed: {}", r.err_text())
                        })
                    {
                        return false;
                    }
                }
                if ok {
                    h.out.count("decreases_ok");
                }
            }
        }
        // self allowance is never created
        for a in &pool().actors {
            if let Some(v) = post.allow.get(&(a.clone(), a.clone())) {
                if !h.check(*v == (0, Exp::Never), "C02/allowance/self-allowance-exists", || {
                    format!("{a} has an allowance on its own account: {v:?}")
                }) {
                    return false;
                }
            }
        }

        // (4) notifications
        if let Res::Ok(resp) = &r {
            if !check_messages(h, sender, op, resp) {
                return false;
            }
        }
        *pre = post;
        true
    }

    /// the classic race: {increase, decrease, draw} in all orders, around the expiry
    fn directed(&self, h: &mut Hist) -> bool {
        let idx = h.idx;
        // thorough tier: additionally all 24 orders of a 4-op set {increase, decrease, draw, burn-from}
        let four = h.tier == Tier::Thorough && (36..36 + 144).contains(&idx);
        if idx >= 36 && !four {
            return false;
        }
        let (perm, timing, kind_time) = if four {
            let j = idx - 36;
            ((j % 24) as usize, ((j / 24) % 3) as usize, j / 72 == 1)
        } else {
            ((idx % 6) as usize, ((idx / 6) % 3) as usize, idx / 18 == 1)
        };
        let p = pool();
        let (owner, spender, dest) = (p.actors[0].clone(), p.actors[1].clone(), p.actors[2].clone());
        let mut c = Cw20::new(&mut h.rng);
        let cfg = InitCfg {
            balances: vec![(owner.clone(), 1000)],
            mint: None,
            marketing: None,
        };
        if !c.instantiate(&cfg).is_ok() {
            return true;
        }
        let mut led = Ledger::default();
        let mut pre = c.snap(true);
        let hgt = c.w.block.height;
        let t = c.w.block.time.nanos();
        let exp = if kind_time { Exp::T(t + 10_000_000_000) } else { Exp::H(hgt + 10) };
        if !self.step(h, &mut c, &mut led, &mut pre, &owner, &Op::Inc { spender: spender.clone(), amt: 100, exp: Some(exp) }) {
            return true;
        }
        // move to expiry -1 / 0 / +1
        match (kind_time, timing) {
            (false, 0) => c.w.advance(9, 9),
            (false, 1) => c.w.advance(10, 9),
            (false, _) => c.w.advance(11, 9),
            (true, 0) => { c.w.block.time = cosmwasm_std::Timestamp::from_nanos(t + 10_000_000_000 - 1); c.w.block.height += 1 }
            (true, 1) => { c.w.block.time = cosmwasm_std::Timestamp::from_nanos(t + 10_000_000_000); c.w.block.height += 1 }
            (true, _) => { c.w.block.time = cosmwasm_std::Timestamp::from_nanos(t + 10_000_000_000 + 1); c.w.block.height += 1 }
        }
        let inc = (owner.clone(), Op::Inc { spender: spender.clone(), amt: 20, exp: None });
        let dec = (owner.clone(), Op::Dec { spender: spender.clone(), amt: 50, exp: None });
        let draw = (spender.clone(), Op::TransferFrom { owner: owner.clone(), to: dest.clone(), amt: 60 });
        if four {
            let burn = (spender.clone(), Op::BurnFrom { owner: owner.clone(), amt: 30 });
            let ops = [inc, dec, draw, burn];
            // perm-th permutation of 0..4 (Lehmer code)
            let mut items = vec![0usize, 1, 2, 3];
            let mut code = perm;
            let mut order = vec![];
            for f in [6usize, 2, 1, 1] {
                let k = code / f;
                code %= f;
                order.push(items.remove(k.min(items.len() - 1)));
            }
            for i in order {
                let (s, o) = &ops[i];
                if !self.step(h, &mut c, &mut led, &mut pre, s, o) {
                    return true;
                }
            }
            h.out.count("four_op_permutations_run");
        } else {
            let orders = [[0, 1, 2], [0, 2, 1], [1, 0, 2], [1, 2, 0], [2, 0, 1], [2, 1, 0]];
            let ops = [inc, dec, draw];
            for i in orders[perm] {
                let (s, o) = &ops[i];
                if !self.step(h, &mut c, &mut led, &mut pre, s, o) {
                    return true;
                }
            }
            h.out.count("race_permutations_run");
        }
        // second draw attempts: whatever is left, then one more unit
        let left = c.allowance(&owner, &spender).0;
        let _ = self.step(h, &mut c, &mut led, &mut pre, &spender, &Op::BurnFrom { owner: owner.clone(), amt: left })
            && self.step(h, &mut c, &mut led, &mut pre, &spender, &Op::SendFrom { owner: owner.clone(), to: dest, amt: 1, payload: vec![9, 9] });
        true
    }
}

impl C02 {
    /// AppDriver pass: the Receive notification is really DELIVERED exactly once on success and
    /// not at all on failure (the sink contract records deliveries in its own storage).
    fn app_pass(&self, h: &mut Hist) {
        use crate::chain::Chain;
        use cosmwasm_std::{Binary, Uint128};
        let p = pool();
        let mut c = Chain::new(h.rng.range(10, 5000), 1_700_000_000);
        let sink = c.new_sink();
        let sink2 = c.new_sink();
        let bals: Vec<(String, u128)> = p.actors.iter().map(|a| (a.clone(), 10_000u128)).collect();
        let tok = c.new_cw20(false, &bals, None);
        // allowances so that SendFrom can work
        for o in &p.actors[..3] {
            for s in &p.actors[3..] {
                let _ = c.exec(o, &tok, &cw20::Cw20ExecuteMsg::IncreaseAllowance { spender: s.clone(), amount: Uint128::new(500), expires: None }, &[]);
            }
        }
        let mut ctr = 0u64;
        let mut failing = false;
        let n = h.tier.pick(40, 60);
        for _ in 0..n {
            if h.rng.chance(1, 6) {
                failing = !failing;
                c.sink_fail(&sink, failing);
            }
            ctr += 1;
            let payload: Vec<u8> = format!("h{}-{}", h.idx, ctr).into_bytes();
            let target = match h.rng.below(6) {
                0 => sink2.clone(),
                1 => cosmwasm_std::Addr::unchecked(p.actors[5].clone()), // not a contract: delivery fails
                _ => sink.clone(),
            };
            let amount = match h.rng.below(6) {
                0 => 0u128,
                1 => 20_000, // more than anybody holds
                _ => h.rng.range(1, 300) as u128,
            };
            let from_allowance = h.rng.chance(1, 2);
            let (sender, owner) = if from_allowance { (p.actors[3 + h.rng.below_usize(3)].clone(), p.actors[h.rng.below_usize(3)].clone()) } else { (p.actors[h.rng.below_usize(6)].clone(), String::new()) };
            let holder = if from_allowance { owner.clone() } else { sender.clone() };
            let before_holder = c.cw20_balance(&tok, &holder);
            let before_target = c.cw20_balance(&tok, target.as_str());
            let n1 = c.sink_count(&sink);
            let n2 = c.sink_count(&sink2);
            let msg = if from_allowance {
                cw20::Cw20ExecuteMsg::SendFrom { owner: owner.clone(), contract: target.to_string(), amount: Uint128::new(amount), msg: Binary::from(payload.clone()) }
            } else {
                cw20::Cw20ExecuteMsg::Send { contract: target.to_string(), amount: Uint128::new(amount), msg: Binary::from(payload.clone()) }
            };
            let r = c.exec(&sender, &tok, &msg, &[]);
            h.out.evaluations += 1;
            h.log(|| format!("app: {} {} {amount} -> {} (sink failing={failing}) => {}", short(&sender), if from_allowance { "SendFrom" } else { "Send" }, short(target.as_str()), r.class()));
            let d1 = c.sink_log(&sink, n1);
            let d2 = c.sink_log(&sink2, n2);
            let after_holder = c.cw20_balance(&tok, &holder);
            let after_target = c.cw20_balance(&tok, target.as_str());
            h.out.distinct(&("app_send", from_allowance, r.class(), target == sink, failing, amount == 0));
            if r.is_ok() {
                h.out.count("app_sends_delivered");
                let mine = if target == sink { &d1 } else { &d2 };
                let other = if target == sink { &d2 } else { &d1 };
                let good = mine.len() == 1 && other.is_empty() && {
                    let v: serde_json::Value = serde_json::from_str(&mine[0].payload).unwrap_or_default();
                    v["receive"]["sender"].as_str() == Some(sender.as_str())
                        && v["receive"]["amount"].as_str() == Some(amount.to_string().as_str())
                        && v["receive"]["msg"].as_str() == Some(Binary::from(payload.clone()).to_base64().as_str())
                        && mine[0].sender == tok.as_str()
                        && mine[0].funds.is_empty()
                };
                if !h.check(good, "C02/delivery/not-exactly-one-truthful-notification", || format!("deliveries to target {mine:?}, to the other sink {other:?}; expected one receive{{sender={sender}, amount={amount}}}")) {
                    return;
                }
                if !h.check(after_holder + amount == before_holder && after_target == before_target + amount, "C02/delivery/amount-moved-differs-from-notified", || {
                    format!("holder {before_holder}->{after_holder}, target {before_target}->{after_target}, notified {amount}")
                }) {
                    return;
                }
            } else {
                h.out.count("app_sends_failed");
                if failing && target == sink {
                    h.out.count("app_sends_failed_because_receiver_failed");
                }
                if !h.check(d1.is_empty() && d2.is_empty() && after_holder == before_holder && after_target == before_target, "C02/delivery/failed-send-left-traces", || {
                    format!("deliveries {d1:?} {d2:?}; holder {before_holder}->{after_holder}")
                }) {
                    return;
                }
            }
        }
    }
}

impl Monitor for C02 {
    fn id(&self) -> &'static str {
        "C02"
    }
    fn engine(&self) -> &'static str {
        "cwv-direct + cwv-app (delivery pass, every 8th history)"
    }
    fn histories(&self, tier: Tier) -> u64 {
        tier.pick(1_600, 48_000)
    }
    fn mandatory(&self) -> Vec<&'static str> {
        vec![
            "draws_ok",
            "draws_of_exactly_the_remaining_allowance",
            "draws_one_over_allowance_rejected",
            "draws_on_expired_allowance_rejected",
            "draws_at_exact_expiry_height_rejected",
            "draws_at_exact_expiry_time_rejected",
            "draws_one_block_before_expiry_ok",
            "decreases_beyond_allowance",
            "notifications_checked",
            "race_permutations_run",
            "app_sends_delivered",
            "app_sends_failed_because_receiver_failed",
            "migrations_run",
        ]
    }
    fn rule(&self) -> &'static str {
        "36 directed histories (all 6 orders of {increase, decrease, draw} x {before, at, after expiry} x {height, time expiry}) then seeded random histories biased to existing (owner,spender) pairs and expiry boundaries; after every call all pool balances and all 36 pool allowances are re-read and compared with an independent allowance/authority model plus a cumulative granted/drawn ledger; Send/SendFrom responses are decoded; no successful move names more than the source held (also when source and target coincide); every fifth history upgrades the token in mid-life through the real migrate from an old version string (by-spender index stripped): balances, allowances and supply must be unchanged and nobody gains authority. distinct = (operation kind, outcome, amount vs allowance below/equal/above, allowance expired?)"
    }
    fn assumptions(&self) -> Vec<&'static str> {
        vec![
            "expiry semantics taken from the cw20 spec: AtHeight(h) reached when height >= h, AtTime(t) when time >= t (re-implemented, not taken from the library)",
            "delivery of the Receive notification by the chain is the chain's job; the monitor checks the single emitted message",
            "only executed histories are judged",
        ]
    }
    fn run_history(&self, h: &mut Hist) {
        if self.directed(h) {
            return;
        }
        if h.idx % 8 == 7 {
            self.app_pass(h);
            return;
        }
        let mut c = Cw20::new(&mut h.rng);
        let cfg = gen_init(&mut h.rng, true);
        let r = c.instantiate(&cfg);
        h.note(format!("instantiate {:?} => {}", cfg, r.class()));
        if !r.is_ok() {
            return;
        }
        let mut led = Ledger::default();
        let mut pre = c.snap(true);
        let n = h.tier.pick(80, 120);
        let migrate_at = if h.idx % 5 == 2 { h.rng.range(5, 60) as usize } else { usize::MAX };
        for i in 0..n {
            if i == migrate_at {
                // the token was deployed by an older release (no by-spender index) and is upgraded now:
                // no balance and no allowance may change, nobody gains authority over anybody's tokens
                let v = *h.rng.pick(&["0.13.4", "0.9.1", "0.13.0", "0.2.3", "1.1.2", "2.0.0", "0.7.0", "0.10.3", "0.1.0", "0.14.0", "0.16.0", "0.12.0-alpha1", "0.10.0-soon4", "0.13.0-rc.2"]);
                let keys: Vec<Vec<u8>> = c.w.store.data.keys().filter(|k| k.windows(17).any(|w| w == b"allowance_spender")).cloned().collect();
                if v.starts_with("0.") {
                    for k in keys {
                        c.w.store.data.remove(&k);
                    }
                }
                cw2::set_contract_version(&mut c.w.store, "crates.io:cw20-base", v).unwrap();
                let r = c.w.tx(|deps, env| cw20_base::contract::migrate(deps, env, cw20_base::msg::MigrateMsg {}));
                h.out.evaluations += 1;
                h.note(format!("migrate from {v} => {}", r.class()));
                if r.is_ok() {
                    h.out.count("migrations_run");
                }
                let post = c.snap(true);
                if !h.check(post.bal == pre.bal && post.allow == pre.allow && post.supply == pre.supply, "C02/migrate/balances-or-allowances-changed-by-migration", || {
                    let diff: Vec<String> = post.allow.iter().filter(|(k, v)| pre.allow.get(*k) != Some(*v)).map(|(k, v)| format!("{}->{}: {:?} -> {:?}", short(&k.0), short(&k.1), pre.allow.get(k), v)).collect();
                    format!("migrate from {v}: allowance changes {diff:?}")
                }) {
                    return;
                }
                pre = post;
                continue;
            }
            if h.rng.chance(1, 4) {
                let s = pre.clone();
                let (b, s_) = gen_advance(&mut h.rng, &mut c, &s);
                h.log(|| format!("advance {b} blocks {s_} s"));
            }
            let (sender, op) = gen_op(&mut h.rng, &c, &pre, &MIX_ALLOWANCE);
            if !self.step(h, &mut c, &mut led, &mut pre, &sender, &op) {
                return;
            }
        }
    }
}

//! C01 — cw20: total supply always equals the sum of all balances.

use crate::core::{Hist, Monitor, Tier};
use crate::cw20w::*;
use crate::direct::Res;
use std::collections::BTreeSet;

pub struct C01;

fn sum_listed(h: &mut Hist, s: &Snap) -> Option<u128> {
    let mut sum: u128 = 0;
    let mut seen = BTreeSet::new();
    for a in &s.listed {
        if !seen.insert(a.clone()) {
            h.violate(
                "C01/listing/account-listed-twice",
                format!("AllAccounts lists {a} twice"),
            );
            return None;
        }
        match sum.checked_add(*s.bal.get(a).unwrap_or(&0)) {
            Some(x) => sum = x,
            None => {
                h.violate(
                    "C01/sum/balances-exceed-u128",
                    "sum of listed balances overflows u128 although supply is a u128".into(),
                );
                return None;
            }
        }
    }
    Some(sum)
}

fn invariant(h: &mut Hist, s: &Snap, site: &str) -> bool {
    let Some(sum) = sum_listed(h, s) else {
        return false;
    };
    if !h.check(sum == s.supply, &format!("C01/invariant/{site}/supply-ne-sum"), || {
        format!("total_supply={} but sum of listed balances={}", s.supply, sum)
    }) {
        return false;
    }
    for (a, b) in &s.bal {
        if *b != 0 && !s.listed.contains(a) {
            h.out.oracle_checks += 1;
            h.violate(
                &format!("C01/invariant/{site}/unlisted-account-holds-balance"),
                format!("{a} has balance {b} but is not returned by AllAccounts"),
            );
            return false;
        }
    }
    true
}

/// expected per-address deltas (as signed pairs) for a successful op
fn expected(sender: &str, op: &Op) -> (i8, Vec<(String, bool, u128)>) {
    // returns (supply direction: -1,0,+1 with amount = op amount, [(addr, is_credit, amount)])
    match op {
        Op::Transfer { to, amt } | Op::Send { to, amt, .. } => (
            0,
            vec![(sender.to_string(), false, *amt), (to.clone(), true, *amt)],
        ),
        Op::TransferFrom { owner, to, amt } | Op::SendFrom { owner, to, amt, .. } => (
            0,
            vec![(owner.clone(), false, *amt), (to.clone(), true, *amt)],
        ),
        Op::Mint { to, amt } => (1, vec![(to.clone(), true, *amt)]),
        Op::Burn { amt } => (-1, vec![(sender.to_string(), false, *amt)]),
        Op::BurnFrom { owner, amt } => (-1, vec![(owner.clone(), false, *amt)]),
        _ => (0, vec![]),
    }
}

fn op_amount(op: &Op) -> u128 {
    match op {
        Op::Transfer { amt, .. }
        | Op::Send { amt, .. }
        | Op::TransferFrom { amt, .. }
        | Op::SendFrom { amt, .. }
        | Op::Mint { amt, .. }
        | Op::Burn { amt }
        | Op::BurnFrom { amt, .. } => *amt,
        _ => 0,
    }
}

fn delta_rule(h: &mut Hist, pre: &Snap, post: &Snap, sender: &str, op: &Op, ok: bool) -> bool {
    let kind = op.kind();
    let addrs: BTreeSet<&String> = pre.bal.keys().chain(post.bal.keys()).collect();
    if !ok {
        if !h.check(
            pre.supply == post.supply,
            &format!("C01/delta/{kind}/failed-call-changed-supply"),
            || format!("supply {} -> {} in a failed call", pre.supply, post.supply),
        ) {
            return false;
        }
        for a in addrs {
            let (b0, b1) = (
                *pre.bal.get(a).unwrap_or(&0),
                *post.bal.get(a).unwrap_or(&0),
            );
            if b0 != b1 {
                h.violate(
                    &format!("C01/delta/{kind}/failed-call-changed-balance"),
                    format!("balance of {a}: {b0} -> {b1} in a failed call"),
                );
                return false;
            }
        }
        return true;
    }
    let (dir, moves) = expected(sender, op);
    let x = op_amount(op);
    // supply
    let exp_supply = match dir {
        1 => pre.supply.checked_add(x),
        -1 => pre.supply.checked_sub(x),
        _ => Some(pre.supply),
    };
    if !h.check(
        exp_supply == Some(post.supply),
        &format!("C01/delta/{kind}/supply-change-wrong"),
        || {
            format!(
                "supply {} -> {} after successful {kind} of {x} (expected {:?})",
                pre.supply, post.supply, exp_supply
            )
        },
    ) {
        return false;
    }
    // balances: apply the expected moves to the pre-state and compare with the post-state
    let mut model = pre.bal.clone();
    for (a, credit, amt) in &moves {
        let e = model.entry(a.clone()).or_insert(0);
        if *credit {
            match e.checked_add(*amt) {
                Some(v) => *e = v,
                None => {
                    h.violate(
                        &format!("C01/delta/{kind}/credit-overflow-accepted"),
                        format!("successful {kind} although crediting {a} overflows u128"),
                    );
                    return false;
                }
            }
        } else {
            match e.checked_sub(*amt) {
                Some(v) => *e = v,
                None => {
                    h.violate(
                        &format!("C01/delta/{kind}/debit-below-zero-accepted"),
                        format!("successful {kind} of {amt} although {a} only had {e}"),
                    );
                    return false;
                }
            }
        }
    }
    for a in addrs {
        let m = *model.get(a).unwrap_or(&0);
        let b1 = *post.bal.get(a).unwrap_or(&0);
        h.out.oracle_checks += 1;
        if m != b1 {
            h.violate(
                &format!("C01/delta/{kind}/balance-change-wrong"),
                format!(
                    "after successful {kind} (amount {x}) balance of {a} is {b1}, expected {m} (was {})",
                    pre.bal.get(a).unwrap_or(&0)
                ),
            );
            return false;
        }
    }
    true
}

impl C01 {
    fn directed(&self, h: &mut Hist) -> bool {
        let p = pool();
        let a = &p.actors;
        let mut c = Cw20::new(&mut h.rng);
        match h.idx {
            0 => {
                // mint up to u128::MAX then try to push a credit over the edge
                let cfg = InitCfg {
                    balances: vec![(a[0].clone(), u128::MAX - 10), (a[1].clone(), 5)],
                    mint: Some((a[2].clone(), None)),
                    marketing: None,
                };
                if !c.instantiate(&cfg).is_ok() {
                    return true;
                }
                let ops = vec![
                    (a[2].clone(), Op::Mint { to: a[1].clone(), amt: 5 }),
                    (a[2].clone(), Op::Mint { to: a[1].clone(), amt: 1 }), // supply overflow
                    (a[1].clone(), Op::Transfer { to: a[0].clone(), amt: 10 }),
                    (a[1].clone(), Op::Transfer { to: a[0].clone(), amt: 1 }), // no funds left
                    (a[0].clone(), Op::Transfer { to: a[0].clone(), amt: u128::MAX }), // self
                    (a[0].clone(), Op::Burn { amt: u128::MAX }),
                    (a[2].clone(), Op::Mint { to: a[3].clone(), amt: u128::MAX }),
                    (a[3].clone(), Op::Send { to: a[3].clone(), amt: 7, payload: vec![1] }),
                ];
                self.play(h, &mut c, ops);
                true
            }
            1 => {
                // self transfers, zero amounts, transfers to the contract itself
                let cfg = InitCfg {
                    balances: vec![(a[0].clone(), 100), (a[1].clone(), 0)],
                    mint: None,
                    marketing: None,
                };
                if !c.instantiate(&cfg).is_ok() {
                    return true;
                }
                let me = c.w.contract.to_string();
                let ops = vec![
                    (a[0].clone(), Op::Transfer { to: a[0].clone(), amt: 100 }),
                    (a[0].clone(), Op::Transfer { to: a[0].clone(), amt: 101 }),
                    (a[0].clone(), Op::Transfer { to: a[1].clone(), amt: 0 }),
                    (a[4].clone(), Op::Transfer { to: a[5].clone(), amt: 0 }),
                    (a[0].clone(), Op::Transfer { to: me.clone(), amt: 40 }),
                    (me.clone(), Op::Burn { amt: 40 }),
                    (a[0].clone(), Op::Inc { spender: a[1].clone(), amt: 60, exp: None }),
                    (a[1].clone(), Op::TransferFrom { owner: a[0].clone(), to: a[0].clone(), amt: 30 }),
                    (a[1].clone(), Op::BurnFrom { owner: a[0].clone(), amt: 30 }),
                    (a[1].clone(), Op::SendFrom { owner: a[0].clone(), to: a[2].clone(), amt: 1, payload: vec![] }),
                ];
                self.play(h, &mut c, ops);
                true
            }
            2 | 3 | 4 => {
                // many accounts; a contiguous run (in listing order) of more than a page of them is emptied
                let n = 40 + (h.idx as usize) * 9;
                let mut addrs: Vec<String> = (0..n).map(|i| crate::direct::mk_addr(&format!("holder-{i}"))).collect();
                addrs.sort();
                let cfg = InitCfg { balances: addrs.iter().map(|x| (x.clone(), 10u128)).collect(), mint: None, marketing: None };
                if !c.instantiate(&cfg).is_ok() {
                    return true;
                }
                let sink_acct = addrs[n - 1].clone();
                let start = (h.idx as usize) % 3;
                let run = 31 + (h.idx as usize) % 4;
                let mut pre = c.snap(false);
                if !invariant(h, &pre, "directed-start") {
                    return true;
                }
                for x in addrs.iter().skip(start).take(run) {
                    let op = Op::Transfer { to: sink_acct.clone(), amt: 10 };
                    if !self.step(h, &mut c, &mut pre, x, &op) {
                        return true;
                    }
                }
                h.out.count("worlds_with_a_run_of_more_than_30_emptied_accounts");
                true
            }
            _ => false,
        }
    }

    fn play(&self, h: &mut Hist, c: &mut Cw20, ops: Vec<(String, Op)>) {
        let mut pre = c.snap(false);
        if !invariant(h, &pre, "directed-start") {
            return;
        }
        for (sender, op) in ops {
            if !self.step(h, c, &mut pre, &sender, &op) {
                return;
            }
        }
    }

    fn step(&self, h: &mut Hist, c: &mut Cw20, pre: &mut Snap, sender: &str, op: &Op) -> bool {
        let r = c.exec(sender, op);
        log_op(h, c, sender, op, &r);
        h.out.evaluations += 1;
        if let Res::Abort(_) = &r {
            h.out.abort(&crate::direct::last_panic_site());
            h.out.count("aborted_calls_rolled_back");
        }
        let post = c.snap(false);
        {
            // the client-side helpers of packages/cw20 report the same supply and balances
            let via_s = c.via_helper(|t, q| t.meta(q)).map(|i| i.total_supply.u128());
            let a = h.rng.clone().pick_cloned(&pool().actors);
            let via_b = c.via_helper(|t, q| t.balance(q, a.clone())).map(|b| b.u128());
            h.out.oracle_checks += 1;
            if via_s != Some(post.supply) || via_b != post.bal.get(&a).copied() {
                h.violate("C01/query/package-helper-differs-from-queries", format!("Cw20Contract::meta.total_supply {via_s:?} / balance({a}) {via_b:?}; queries say {} / {:?}", post.supply, post.bal.get(&a)));
                return false;
            }
        }
        let x = op_amount(op);
        let amt_class = if x == 0 {
            0
        } else if x <= u64::MAX as u128 {
            1
        } else {
            2
        };
        let self_move = match op {
            Op::Transfer { to, .. } | Op::Send { to, .. } => to == sender,
            Op::TransferFrom { owner, to, .. } | Op::SendFrom { owner, to, .. } => owner == to,
            _ => false,
        };
        h.out
            .distinct(&(op.kind(), r.class(), amt_class, self_move, pre.supply == 0));
        h.out.state(&(post.supply, post.listed.len(), post.bal.values().filter(|b| **b > 0).count()));
        if r.is_ok() {
            h.out.count(&format!("ok_{}", op.kind()));
            if self_move {
                h.out.count("self_transfer_ok");
            }
            if x == 0 {
                h.out.count("zero_amount_ok");
            }
        } else {
            h.out.count("failed_calls_checked_for_rollback");
            if std::env::var("CWV_DEBUG").is_ok() {
                let e = r.err_text();
                h.out.count(&format!("dbg_{}_{}", op.kind(), &e[..e.len().min(28)]));
            }
        }
        if !delta_rule(h, pre, &post, sender, op, r.is_ok()) {
            return false;
        }
        if !invariant(h, &post, op.kind()) {
            return false;
        }
        *pre = post;
        true
    }
}

impl Monitor for C01 {
    fn id(&self) -> &'static str {
        "C01"
    }
    fn engine(&self) -> &'static str {
        "cwv-direct"
    }
    fn histories(&self, tier: Tier) -> u64 {
        tier.pick(2_000, 256_000)
    }
    fn mandatory(&self) -> Vec<&'static str> {
        vec![
            "migrations_run",
            "ok_transfer",
            "ok_send",
            "ok_mint",
            "ok_burn",
            "ok_transfer_from",
            "ok_burn_from",
            "ok_send_from",
            "failed_calls_checked_for_rollback",
            "self_transfer_ok",
            "zero_amount_ok",
            "instantiate_accepted",
            "instantiate_rejected",
            "worlds_with_a_run_of_more_than_30_emptied_accounts",
        ]
    }
    fn rule(&self) -> &'static str {
        "seeded random histories (plus 2 directed ones) of all cw20 execute variants against the real cw20-base entry points; after every call the monitor pages AllAccounts, sums Balance over it, compares with TokenInfo.total_supply and applies the per-operation delta rule. Three directed worlds hold 40+ sorted accounts with a contiguous run of 31-34 emptied ones; every seventh history upgrades the token in mid-life through the real migrate (old version strings, by-spender index stripped), half of those with 11-45 extra holders: supply and balances must survive. distinct = (operation kind, outcome ok/err/abort, amount class zero/<=u64/>u64, self-move?, supply==0?)"
    }
    fn assumptions(&self) -> Vec<&'static str> {
        vec![
            "cosmwasm-std MockApi address validation and cw-storage-plus are trusted",
            "a call that returns Err or panics is rolled back by the chain (the driver restores the storage copy)",
            "only executed histories are judged",
        ]
    }
    fn run_history(&self, h: &mut Hist) {
        if self.directed(h) {
            return;
        }
        let mut c = Cw20::new(&mut h.rng);
        let hostile = h.rng.chance(1, 3);
        let mut cfg = gen_init(&mut h.rng, !hostile);
        if h.idx % 14 == 3 {
            // more holders than one listing page in a history that migrates later
            let n = h.rng.range(11, 45) as usize;
            add_holders(&mut h.rng, &mut cfg, n);
            h.out.count("migrating_tokens_with_more_than_ten_holders");
        }
        let r = c.instantiate(&cfg);
        h.out.evaluations += 1;
        h.note(format!("instantiate {:?} => {}", cfg, r.class()));
        if !r.is_ok() {
            h.out.count("instantiate_rejected");
            h.out.distinct(&("instantiate", r.class(), cfg.balances.len()));
            return;
        }
        h.out.count("instantiate_accepted");
        h.out.distinct(&("instantiate", "ok", cfg.balances.len(), cfg.mint.is_some()));
        let mut pre = c.snap(false);
        // (4) accepted => supply = sum of initial balances, each account listed once with its amount
        let mut sum: Option<u128> = Some(0);
        for (_, x) in &cfg.balances {
            sum = sum.and_then(|s| s.checked_add(*x));
        }
        if !h.check(sum == Some(pre.supply), "C01/instantiate/supply-ne-initial-sum", || {
            format!("accepted instantiate: supply {} but initial balances sum to {:?}", pre.supply, sum)
        }) {
            return;
        }
        for (a, x) in &cfg.balances {
            let b = *pre.bal.get(a).unwrap_or(&0);
            if !h.check(b == *x, "C01/instantiate/initial-balance-wrong", || {
                format!("initial balance of {a} is {b}, instantiate said {x}")
            }) {
                return;
            }
        }
        if !invariant(h, &pre, "instantiate") {
            return;
        }
        let n = h.tier.pick(80, 120);
        let migrate_at = if h.idx % 7 == 3 { h.rng.range(3, 60) } else { u64::MAX };
        for i in 0..n {
            if i == migrate_at {
                // upgrade of a token deployed by an older release: supply, balances and their equality survive it
                let v = *h.rng.pick(&["0.13.4", "0.9.1", "0.13.0", "0.2.3", "1.1.2", "2.0.0", "0.7.0", "0.10.3", "0.1.0", "0.14.0", "0.16.0", "0.12.0-alpha1", "0.10.0-soon4", "0.13.0-rc.2"]);
                if v.starts_with("0.") {
                    let keys: Vec<Vec<u8>> = c.w.store.data.keys().filter(|k| k.windows(17).any(|w| w == b"allowance_spender")).cloned().collect();
                    for k in keys {
                        c.w.store.data.remove(&k);
                    }
                }
                cw2::set_contract_version(&mut c.w.store, "crates.io:cw20-base", v).unwrap();
                let r = c.w.tx(|deps, env| cw20_base::contract::migrate(deps, env, cw20_base::msg::MigrateMsg {}));
                h.out.evaluations += 1;
                h.note(format!("migrate from {v} => {}", r.class()));
                if r.is_ok() {
                    h.out.count("migrations_run");
                }
                let post = c.snap(false);
                if !h.check(post.supply == pre.supply && post.bal == pre.bal, "C01/migrate/supply-or-balances-changed-by-migration", || {
                    format!("migrate from {v}: supply {} -> {}, balances changed: {}", pre.supply, post.supply, post.bal != pre.bal)
                }) {
                    return;
                }
                if !invariant(h, &post, "migrate") {
                    return;
                }
                pre = post;
                continue;
            }
            if h.rng.chance(1, 6) {
                let snap_for_adv = pre.clone();
                gen_advance(&mut h.rng, &mut c, &snap_for_adv);
            }
            // allowances are needed as anchors for *From ops: read them lazily from the contract
            let mut s = pre.clone();
            if s.allow.is_empty() {
                let p = pool();
                for o in &p.actors {
                    for sp in &p.actors {
                        let a = c.allowance(o, sp);
                        if a.0 > 0 {
                            s.allow.insert((o.clone(), sp.clone()), a);
                        }
                    }
                }
            }
            let (sender, op) = gen_op(&mut h.rng, &c, &s, &MIX_BALANCED);
            if !self.step(h, &mut c, &mut pre, &sender, &op) {
                return;
            }
        }
    }
}

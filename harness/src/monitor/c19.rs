//! C19 — cw20: the three allowance views agree, also after migration.

use crate::core::{Hist, Monitor, Tier};
use crate::cw20w::*;
use crate::direct::{info, Res};
use cosmwasm_std::{Addr, Uint128};
use cw20::AllowanceResponse;
use cw20_base::msg::MigrateMsg;
use std::collections::BTreeMap;

pub struct C19;

fn agree(h: &mut Hist, c: &Cw20, site: &str) -> bool {
    let p = pool();
    let mut by_owner: BTreeMap<(String, String), (u128, Exp)> = BTreeMap::new();
    let mut by_spender: BTreeMap<(String, String), (u128, Exp)> = BTreeMap::new();
    for o in &p.actors {
        for (s, a, e) in c.owner_allowances(o) {
            if by_owner.insert((o.clone(), s.clone()), (a, e)).is_some() {
                h.violate(&format!("C19/{site}/owner-listing-duplicate"), format!("{o} lists {s} twice"));
                return false;
            }
        }
    }
    for s in &p.actors {
        for (o, a, e) in c.spender_allowances(s) {
            if by_spender.insert((o.clone(), s.clone()), (a, e)).is_some() {
                h.violate(&format!("C19/{site}/spender-listing-duplicate"), format!("{s} lists {o} twice"));
                return false;
            }
        }
    }
    let mut present = 0;
    for o in &p.actors {
        for s in &p.actors {
            let k = (o.clone(), s.clone());
            let a = c.allowance(o, s);
            let via = c.via_helper(|t, q| t.allowance(q, o.clone(), s.clone())).map(|r| (r.allowance.u128(), Exp::from(&r.expires)));
            if via != Some(a) {
                h.violate(&format!("C19/{site}/package-helper-differs-from-point-query"), format!("{o}->{s}: Cw20Contract::allowance gives {via:?}, the Allowance query {a:?}"));
                return false;
            }
            let l = by_owner.get(&k).copied();
            let r = by_spender.get(&k).copied();
            h.out.oracle_checks += 1;
            match (l, r) {
                (Some(l), Some(r)) => {
                    present += 1;
                    if !(l == r && l == a) {
                        h.violate(
                            &format!("C19/{site}/views-disagree"),
                            format!("{o}->{s}: Allowance={a:?} AllAllowances={l:?} AllSpenderAllowances={r:?}"),
                        );
                        return false;
                    }
                    if a.0 == 0 {
                        h.out.count("zero_allowance_entries_listed_consistently");
                    }
                }
                (None, None) => {
                    if a != (0, Exp::Never) {
                        h.violate(
                            &format!("C19/{site}/point-query-without-listing"),
                            format!("{o}->{s}: Allowance={a:?} but neither listing has it"),
                        );
                        return false;
                    }
                }
                (l, r) => {
                    h.violate(
                        &format!("C19/{site}/listed-in-one-view-only"),
                        format!("{o}->{s}: Allowance={a:?} AllAllowances={l:?} AllSpenderAllowances={r:?}"),
                    );
                    return false;
                }
            }
        }
    }
    // entries whose spender/owner is outside the pool (the contract's own address) must agree too
    // (the calls of a history only involve pool accounts; these entries are re-checked right after the migration
    // and on every eighth call)
    let outside_now = site == "after-migrate" || h.out.evaluations % 8 == 0;
    for (k, v) in &by_owner {
        if outside_now && !p.actors.contains(&k.1) {
            let sp = c.spender_allowances(&k.1);
            let found = sp.iter().find(|x| x.0 == k.0).map(|x| (x.1, x.2));
            if found != Some(*v) {
                h.violate(&format!("C19/{site}/views-disagree"), format!("{:?}: owner view {v:?} spender view {found:?}", k));
                return false;
            }
        }
    }
    h.out.state(&(present, by_owner.values().filter(|v| v.0 == 0).count(), by_owner.values().filter(|v| v.1 != Exp::Never).count()));
    true
}

impl C19 {
    /// seed a pre-0.14 storage: `allowance` table only, contract version 0.13.x
    fn seed_legacy(&self, h: &mut Hist, c: &mut Cw20) -> bool {
        let p = pool();
        let cfg = gen_init(&mut h.rng, true);
        if !c.instantiate(&cfg).is_ok() {
            return false;
        }
        let versions = ["0.13.4", "0.13.0", "0.10.3", "0.9.1", "0.13.2", "0.7.0", "0.2.3", "0.1.0", "0.12.0-alpha1", "0.10.0-soon4", "0.13.0-rc.2"];
        let v = *h.rng.pick(&versions);
        cw2::set_contract_version(&mut c.w.store, "crates.io:cw20-base", v).unwrap();
        let n = h.rng.below(14);
        let height = c.w.block.height;
        let t = c.w.block.time.nanos();
        for _ in 0..n {
            let o = h.rng.pick_cloned(&p.actors);
            let s = h.rng.pick_cloned(&p.actors);
            if o == s {
                continue;
            }
            let amt = match h.rng.below(5) {
                0 => 0,
                1 => u128::MAX,
                _ => h.rng.below(5000) as u128,
            };
            let exp = match h.rng.below(5) {
                0 => Exp::H(height + h.rng.below(5)),
                1 => Exp::T(t + h.rng.below(20) * 1_000_000_000),
                2 => Exp::H(height.saturating_sub(3)),
                _ => Exp::Never,
            };
            cw20_base::state::ALLOWANCES
                .save(
                    &mut c.w.store,
                    (&Addr::unchecked(&o), &Addr::unchecked(&s)),
                    &AllowanceResponse {
                        allowance: Uint128::new(amt),
                        expires: exp.to(),
                    },
                )
                .unwrap();
        }
        if h.idx % 6 == 3 {
            // a large legacy table: several owners with 7-12 spenders each (spenders outside the actor pool),
            // more entries than any page or batch size
            let owners = h.rng.range(3, 6) as usize;
            let per = h.rng.range(7, 12) as usize;
            for o in p.actors.iter().take(owners) {
                for j in 0..per {
                    let s = crate::direct::mk_addr(&format!("spender-{j:02}"));
                    let amt = 1 + h.rng.below(900) as u128;
                    let exp = if h.rng.chance(1, 4) { Exp::H(height + 1 + h.rng.below(50)) } else { Exp::Never };
                    cw20_base::state::ALLOWANCES
                        .save(&mut c.w.store, (&Addr::unchecked(o), &Addr::unchecked(&s)), &AllowanceResponse { allowance: Uint128::new(amt), expires: exp.to() })
                        .unwrap();
                }
            }
            h.out.count("legacy_tables_with_more_than_30_allowances");
            h.note(format!("plus {owners} owners x {per} outside spenders"));
        }
        if h.idx % 12 == 9 {
            // one owner with far more spenders than any page or batch size
            let o = p.actors[(h.idx as usize / 12) % p.actors.len()].clone();
            let many = 101 + h.rng.below(120) as usize;
            for j in 0..many {
                let s = crate::direct::mk_addr(&format!("wide-spender-{j:03}"));
                cw20_base::state::ALLOWANCES
                    .save(&mut c.w.store, (&Addr::unchecked(&o), &Addr::unchecked(&s)), &AllowanceResponse { allowance: Uint128::new(1 + j as u128), expires: Exp::Never.to() })
                    .unwrap();
            }
            h.out.count("legacy_tables_with_more_than_100_allowances_of_one_owner");
        }
        h.note(format!("legacy storage seeded: version {v}, up to {n} allowances, no spender table"));
        // sanity of the seeding itself: the spender view is empty before migration
        let r = c.w.tx(|deps, env| cw20_base::contract::migrate(deps, env, MigrateMsg {}));
        h.out.evaluations += 1;
        h.note(format!("migrate => {}", r.class()));
        if !r.is_ok() {
            h.violate("C19/migrate/migration-from-older-version-failed", format!("migrate from {v} failed: {}", r.err_text()));
            return false;
        }
        h.out.count("migrations_run");
        h.out.distinct(&("migrate", v, n.min(3)));
        true
    }

    fn step(&self, h: &mut Hist, c: &mut Cw20, pre: &mut Snap, sender: &str, op: &Op) -> bool {
        let r = c.exec(sender, op);
        log_op(h, c, sender, op, &r);
        h.out.evaluations += 1;
        if let Res::Abort(_) = &r {
            h.out.abort(&crate::direct::last_panic_site());
        }
        let to_zero = match op {
            Op::TransferFrom { owner, amt, .. } | Op::SendFrom { owner, amt, .. } | Op::BurnFrom { owner, amt } => {
                pre.allow.get(&(owner.clone(), sender.to_string())).map(|a| a.0 == *amt && *amt > 0).unwrap_or(false)
            }
            Op::Dec { spender, amt, .. } => pre.allow.get(&(sender.to_string(), spender.clone())).map(|a| *amt >= a.0).unwrap_or(false),
            _ => false,
        };
        h.out.distinct(&(op.kind(), r.class(), to_zero));
        if r.is_ok() {
            match op {
                Op::TransferFrom { .. } | Op::SendFrom { .. } | Op::BurnFrom { .. } => {
                    h.out.count("draws_ok");
                    if to_zero {
                        h.out.count("draws_to_exactly_zero");
                    }
                }
                Op::Dec { .. } => {
                    h.out.count("decreases_ok");
                    if to_zero {
                        h.out.count("removals_by_decrease");
                    }
                }
                Op::Inc { .. } => h.out.count("increases_ok"),
                _ => {}
            }
        }
        if !agree(h, c, op.kind()) {
            return false;
        }
        *pre = c.snap(true);
        true
    }
}

impl Monitor for C19 {
    fn id(&self) -> &'static str {
        "C19"
    }
    fn engine(&self) -> &'static str {
        "cwv-direct"
    }
    fn histories(&self, tier: Tier) -> u64 {
        tier.pick(1_200, 120_000)
    }
    fn mandatory(&self) -> Vec<&'static str> {
        vec![
            "draws_ok",
            "draws_to_exactly_zero",
            "removals_by_decrease",
            "increases_ok",
            "migrations_run",
            "legacy_tables_with_more_than_30_allowances",
            "legacy_tables_with_more_than_100_allowances_of_one_owner",
            "zero_allowance_entries_listed_consistently",
        ]
    }
    fn rule(&self) -> &'static str {
        "seeded random allowance-heavy histories; every third history starts from a synthesised pre-0.14 storage (contract version 0.9-0.13, random `allowance` table, no `allowance_spender` table) carried through the real migrate; half of those tables also hold 3-6 owners x 7-12 spenders outside the actor pool (more entries than any page or batch). After every call the point query, the paged owner listing and the paged spender listing are compared for all 36 pool pairs. distinct = (operation kind, outcome, allowance driven to zero?) and (migrate, from-version, table size class)"
    }
    fn assumptions(&self) -> Vec<&'static str> {
        vec![
            "the legacy layout is synthesised with the repo's own ALLOWANCES map definition (unchanged since 0.13) and cw2 version record",
            "only executed histories are judged",
        ]
    }
    fn run_history(&self, h: &mut Hist) {
        let mut c = Cw20::new(&mut h.rng);
        if h.idx % 3 == 0 {
            if !self.seed_legacy(h, &mut c) {
                return;
            }
            if !agree(h, &c, "after-migrate") {
                return;
            }
        } else {
            let cfg = gen_init(&mut h.rng, true);
            let r = c.instantiate(&cfg);
            h.note(format!("instantiate {:?} => {}", cfg, r.class()));
            if !r.is_ok() {
                return;
            }
        }
        let _ = info;
        let mut pre = c.snap(true);
        let n = h.tier.pick(60, 100);
        for _ in 0..n {
            if h.rng.chance(1, 5) {
                let s = pre.clone();
                gen_advance(&mut h.rng, &mut c, &s);
            }
            let (sender, op) = gen_op(&mut h.rng, &c, &pre, &MIX_ALLOWANCE);
            if !self.step(h, &mut c, &mut pre, &sender, &op) {
                return;
            }
        }
    }
}

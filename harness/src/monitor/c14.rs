//! C14 — cw4: only the admin changes a group, and hooks hear every change truthfully.
//! Direct pass: cw4-group (Response.messages). App pass (cw4-stake + sink hooks) is added with the AppDriver.

use crate::core::{Hist, Monitor, Tier};
use crate::cw4w::*;
use crate::direct::Res;
use cosmwasm_std::{from_json, CosmosMsg, ReplyOn, Response, WasmMsg};
use std::collections::BTreeMap;

pub struct C14;

/// decode the hook notifications of a response: hook address -> list of (key, old, new)
pub fn decode_hooks(h: &mut Hist, prop: &str, resp: &Response) -> Option<Vec<(String, Vec<(String, Option<u64>, Option<u64>)>)>> {
    let mut out = vec![];
    for sm in &resp.messages {
        if !h.check(sm.reply_on == ReplyOn::Never && sm.gas_limit.is_none(), &format!("{prop}/hooks/submessage-not-plain"), || format!("{sm:?}")) {
            return None;
        }
        match &sm.msg {
            CosmosMsg::Wasm(WasmMsg::Execute { contract_addr, msg, funds }) => {
                if !h.check(funds.is_empty(), &format!("{prop}/hooks/notification-carries-funds"), || format!("{funds:?}")) {
                    return None;
                }
                let v: serde_json::Value = match from_json(msg) {
                    Ok(v) => v,
                    Err(_) => {
                        h.violate(&format!("{prop}/hooks/notification-not-json"), "bad json".into());
                        return None;
                    }
                };
                let diffs = &v["member_changed_hook"]["diffs"];
                let Some(arr) = diffs.as_array() else {
                    h.violate(&format!("{prop}/hooks/notification-has-no-diffs"), format!("{v}"));
                    return None;
                };
                let mut ds = vec![];
                for d in arr {
                    let key = d["key"].as_str().unwrap_or("").to_string();
                    let old = d["old"].as_u64();
                    let new = d["new"].as_u64();
                    ds.push((key, old, new));
                }
                out.push((contract_addr.clone(), ds));
            }
            other => {
                h.violate(&format!("{prop}/hooks/unexpected-message-kind"), format!("{other:?}"));
                return None;
            }
        }
    }
    Some(out)
}

/// diffs must be truthful: touched addresses only, chained old/new, covering every real change
pub fn check_diffs(
    h: &mut Hist,
    prop: &str,
    diffs: &[(String, Option<u64>, Option<u64>)],
    before: &BTreeMap<String, u64>,
    after: &BTreeMap<String, u64>,
    touched: &[String],
) -> bool {
    let mut cur: BTreeMap<String, Option<u64>> = BTreeMap::new();
    for (k, old, new) in diffs {
        if !h.check(touched.contains(k), &format!("{prop}/diff/entry-for-untouched-address"), || format!("diff for {k}, call touched {touched:?}")) {
            return false;
        }
        // an entry "nobody -> nobody" reports a removal (or arrival) that did not happen
        if !h.check(old.is_some() || new.is_some(), &format!("{prop}/diff/entry-reports-a-change-for-a-non-member"), || format!("diff {k}: old={old:?} new={new:?}")) {
            return false;
        }
        let expect_old = cur.get(k).cloned().unwrap_or_else(|| before.get(k).cloned());
        if !h.check(*old == expect_old, &format!("{prop}/diff/old-weight-untrue"), || {
            format!("diff {k}: old={old:?}, true previous weight {expect_old:?}")
        }) {
            return false;
        }
        cur.insert(k.clone(), *new);
    }
    for (k, last) in &cur {
        let truth = after.get(k).cloned();
        if !h.check(*last == truth, &format!("{prop}/diff/new-weight-untrue"), || {
            format!("diff {k}: final new={last:?}, true weight after the call {truth:?}")
        }) {
            return false;
        }
    }
    // every real change is reported
    let mut keys: Vec<&String> = before.keys().chain(after.keys()).collect();
    keys.sort();
    keys.dedup();
    for k in keys {
        if before.get(k) != after.get(k) {
            if !h.check(cur.contains_key(k), &format!("{prop}/diff/change-not-reported"), || {
                format!("{k} changed {:?} -> {:?} but no diff entry names it", before.get(k), after.get(k))
            }) {
                return false;
            }
        }
    }
    true
}

impl C14 {
    fn step(&self, h: &mut Hist, g: &mut Group, cleared: &mut bool, former: &mut Vec<String>, sender: &str, op: &Op) -> bool {
        let pre = g.snap();
        let r = g.exec(sender, op);
        log_op(h, g, sender, op, &r);
        h.out.evaluations += 1;
        if let Res::Abort(_) = &r {
            h.out.abort(&crate::direct::last_panic_site());
        }
        let post = g.snap();
        let ok = r.is_ok();
        let kind = op.kind();
        let is_admin = pre.admin.as_deref() == Some(sender);
        let is_former = !is_admin && former.iter().any(|f| f == sender);
        h.out.distinct(&(kind, r.class(), if is_admin { 0 } else if is_former { 1 } else { 2 }, pre.hooks.len().min(3), pre.admin.is_none()));
        h.out.state(&(post.admin.is_some(), post.hooks.len(), post.members.len()));

        // (1) only the current admin changes anything
        if !is_admin {
            if is_former {
                h.out.count("former_admin_calls");
            }
            h.out.count("non_admin_calls");
            if !h.check(pre == post, &format!("C14/group/{kind}/non-admin-changed-state"), || {
                format!("{sender} (admin is {:?}) changed {pre:?} -> {post:?}", pre.admin)
            }) {
                return false;
            }
            if !h.check(!ok || matches!(&r, Res::Ok(resp) if resp.messages.is_empty()) || false, &format!("C14/group/{kind}/non-admin-call-notified-hooks"), || "messages emitted".into()) {
                return false;
            }
        }
        if *cleared {
            h.out.count("calls_after_admin_cleared");
            if !h.check(pre == post && !ok, &format!("C14/group/{kind}/changed-or-accepted-after-admin-cleared"), || {
                format!("ok={ok}, {pre:?} -> {post:?}")
            }) {
                return false;
            }
        }
        match (op, &r) {
            (Op::UpdateAdmin { admin }, Res::Ok(_)) => {
                h.out.count("admin_changes_ok");
                if !h.check(post.admin == *admin && post.hooks == pre.hooks && post.members == pre.members, "C14/group/update_admin/effect-wrong", || {
                    format!("requested {admin:?}: {pre:?} -> {post:?}")
                }) {
                    return false;
                }
                if let Some(a) = &pre.admin {
                    if Some(a) != admin.as_ref() && !former.contains(a) {
                        former.push(a.clone());
                    }
                }
                if admin.is_none() {
                    *cleared = true;
                    h.out.count("admin_cleared");
                }
            }
            (Op::AddHook { addr }, Res::Ok(_)) => {
                h.out.count("hooks_added");
                let mut want = pre.hooks.clone();
                want.push(addr.clone());
                if !h.check(post.hooks == want && post.members == pre.members && post.admin == pre.admin, "C14/group/add_hook/effect-wrong", || {
                    format!("{:?} + {addr} => {:?}", pre.hooks, post.hooks)
                }) {
                    return false;
                }
            }
            (Op::RemoveHook { addr }, Res::Ok(_)) => {
                h.out.count("hooks_removed");
                let want: Vec<String> = pre.hooks.iter().filter(|x| *x != addr).cloned().collect();
                if !h.check(post.hooks == want && post.members == pre.members && post.admin == pre.admin, "C14/group/remove_hook/effect-wrong", || {
                    format!("{:?} - {addr} => {:?}", pre.hooks, post.hooks)
                }) {
                    return false;
                }
            }
            (Op::UpdateMembers { add, remove }, Res::Ok(resp)) => {
                h.out.count("membership_updates_ok");
                if !h.check(post.hooks == pre.hooks && post.admin == pre.admin, "C14/group/update_members/changed-hooks-or-admin", || "changed".into()) {
                    return false;
                }
                let before = as_map(&pre.members);
                let after = as_map(&post.members);
                let changed = before != after;
                let Some(notes) = decode_hooks(h, "C14/group", resp) else {
                    return false;
                };
                // exactly one notification per registered hook, nobody else
                let mut got: Vec<&String> = notes.iter().map(|n| &n.0).collect();
                got.sort();
                let mut want: Vec<&String> = pre.hooks.iter().collect();
                want.sort();
                let acceptable = got == want || (!changed && got.is_empty());
                if !h.check(acceptable, "C14/group/hooks/not-exactly-one-notification-per-hook", || {
                    format!("registered hooks {want:?}, notified {got:?} (membership changed: {changed})")
                }) {
                    return false;
                }
                if pre.hooks.iter().any(|x| x == sender) {
                    h.out.count("updates_by_an_admin_that_is_itself_a_registered_hook");
                }
                if notes.first().map(|n| n.1.len() > 32).unwrap_or(false) {
                    h.out.count("notifications_with_more_than_32_entries");
                }
                if !pre.hooks.is_empty() {
                    h.out.count("notified_updates");
                    if pre.hooks.len() >= 2 {
                        h.out.count("updates_with_several_hooks");
                    }
                }
                let mut touched: Vec<String> = add.iter().map(|a| a.0.clone()).collect();
                touched.extend(remove.iter().cloned());
                let overlap = add.iter().any(|a| remove.contains(&a.0));
                if overlap {
                    h.out.count("updates_with_overlapping_add_and_remove");
                }
                if add.iter().any(|a| before.get(&a.0) == Some(&a.1)) {
                    h.out.count("re_weights_to_the_same_value");
                }
                for (hook, diffs) in &notes {
                    let _ = hook;
                    if !check_diffs(h, "C14/group", diffs, &before, &after, &touched) {
                        return false;
                    }
                    // entries for exactly the touched addresses: every address of the add list was written (even at
                    // its old weight), every removed member was removed
                    for (a, _) in add {
                        if !h.check(diffs.iter().any(|d| d.0 == *a), "C14/group/diff/touched-address-without-entry", || format!("{a} is in the add list of the call, no entry of the notification names it")) {
                            return false;
                        }
                    }
                }
                if notes.windows(2).any(|w| w[0].1 != w[1].1) {
                    h.violate("C14/group/hooks/hooks-got-different-diffs", format!("{notes:?}"));
                    return false;
                }
            }
            _ => {
                if !ok && is_admin {
                    h.out.count("admin_calls_rejected");
                }
            }
        }
        true
    }
}

impl Monitor for C14 {
    fn id(&self) -> &'static str {
        "C14"
    }
    fn engine(&self) -> &'static str {
        "cwv-direct (cw4-group) + cwv-app (cw4-stake with sink hooks, every 4th history)"
    }
    fn histories(&self, tier: Tier) -> u64 {
        tier.pick(2_000, 192_000)
    }
    fn mandatory(&self) -> Vec<&'static str> {
        vec![
            "membership_updates_ok",
            "notified_updates",
            "updates_with_several_hooks",
            "updates_by_an_admin_that_is_itself_a_registered_hook",
            "notifications_with_more_than_32_entries",
            "updates_with_overlapping_add_and_remove",
            "re_weights_to_the_same_value",
            "hooks_added",
            "hooks_removed",
            "admin_changes_ok",
            "admin_cleared",
            "calls_after_admin_cleared",
            "former_admin_calls",
            "non_admin_calls",
            "stake_admin_calls_ok",
            "stake_hook_calls_sent_by_a_hook_contract",
            "stake_non_admin_calls_rejected",
            "stake_hook_deliveries_checked",
        ]
    }
    fn rule(&self) -> &'static str {
        "seeded random cw4-group histories of UpdateAdmin (to others, to self, to None), AddHook/RemoveHook (0-3 hooks) and UpdateMembers with overlapping add/remove lists and same-weight re-adds (a sixth of the histories start with bulk updates of 24-63 addresses, half of them in both lists, while the admin itself is one of the registered hooks), by the admin, former admins and strangers, continuing after the admin was cleared. After every call Admin, Hooks and ListMembers are compared with the pre-state and every hook notification in Response.messages is decoded and checked: one per registered hook, entries only for touched addresses, chained old/new values equal to the true weights before/after, every real change reported. distinct = (operation, outcome, caller class admin/former/other, number of hooks, admin cleared?)"
    }
    fn assumptions(&self) -> Vec<&'static str> {
        vec![
            "an entry with old == new is accepted when both values are true (the address was touched)",
            "a call that changes no weight may notify with an empty list or not at all",
            "delivery of Response.messages is the chain's job (the app pass checks delivery for cw4-stake)",
        ]
    }
    fn run_history(&self, h: &mut Hist) {
        if h.idx % 4 == 3 {
            // cw4-stake pass (AppDriver, hooks are sink contracts: committed deliveries are checked)
            crate::monitor::stake::Stake { prop: "C14" }.run(h);
            return;
        }
        let mut g = Group::new(&mut h.rng);
        let members = gen_members(&mut h.rng, false);
        let pl = crate::cw20w::pool();
        let admin = if h.rng.chance(1, 12) { None } else { Some(pl.actors[h.rng.below_usize(3)].clone()) };
        let r = g.instantiate(admin.clone(), &members);
        h.note(format!("instantiate admin={admin:?} members={members:?} => {}", r.class()));
        if !r.is_ok() {
            return;
        }
        let mut cleared = admin.is_none();
        let mut former: Vec<String> = vec![];
        if let (Some(a), true) = (&admin, matches!(h.idx % 12, 1 | 6)) {
            // bulk updates: dozens of addresses in one call, many of them in both lists, with the admin
            // itself among the listeners
            let hp = hooks_pool();
            for hk in [hp[0].clone(), a.clone()] {
                if !self.step(h, &mut g, &mut cleared, &mut former, a, &Op::AddHook { addr: hk }) {
                    return;
                }
            }
            let n_bulk = 24 + h.rng.below_usize(40);
            let bulk: Vec<String> = (0..n_bulk).map(|i| crate::direct::mk_addr(&format!("bulk-{i:02}"))).collect();
            for round in 0..2 {
                let mut add: Vec<(String, u64)> = vec![];
                for b in &bulk {
                    if round == 0 || h.rng.chance(3, 4) {
                        add.push((b.clone(), 1 + h.rng.below(40)));
                    }
                }
                // caller order is not address order
                for i in (1..add.len()).rev() {
                    let j = h.rng.below_usize(i + 1);
                    add.swap(i, j);
                }
                let mut remove: Vec<String> = vec![];
                if round == 1 {
                    for b in &bulk {
                        if h.rng.chance(1, 2) {
                            remove.push(b.clone());
                        }
                    }
                    for i in (1..remove.len()).rev() {
                        let j = h.rng.below_usize(i + 1);
                        remove.swap(i, j);
                    }
                }
                g.w.advance(1, 6);
                if !self.step(h, &mut g, &mut cleared, &mut former, a, &Op::UpdateMembers { add, remove }) {
                    return;
                }
            }
        }
        let n = h.tier.pick(60, 100);
        for _ in 0..n {
            if h.rng.chance(1, 3) {
                g.w.advance(1, 6);
            }
            let pre = g.snap();
            let (sender, op) = gen_op(&mut h.rng, &pre, &former);
            if !self.step(h, &mut g, &mut cleared, &mut former, &sender, &op) {
                return;
            }
        }
    }
}

//! C17 — cw1: the admin set changes only by admins while mutable; freezing is permanent.

use crate::core::{Hist, Monitor, Tier};
use crate::cw1w::*;
use crate::direct::Res;
use cosmwasm_std::{to_json_binary, Binary, CosmosMsg, Empty, WasmMsg};
use cw1_whitelist::msg::ExecuteMsg as WlMsg;

pub struct C17;

/// a message the proxy is asked to relay to itself
#[derive(Clone, Debug)]
enum SelfCall {
    Update(Vec<String>),
    Freeze,
    Exec(Vec<SelfCall>),
    Garbage,
}

fn self_msg(me: &str, c: &SelfCall) -> CosmosMsg {
    let body: Binary = match c {
        SelfCall::Update(l) => to_json_binary(&WlMsg::<Empty>::UpdateAdmins { admins: l.clone() }).unwrap(),
        SelfCall::Freeze => to_json_binary(&WlMsg::<Empty>::Freeze {}).unwrap(),
        SelfCall::Exec(inner) => to_json_binary(&WlMsg::<Empty>::Execute { msgs: inner.iter().map(|c| self_msg(me, c)).collect() }).unwrap(),
        SelfCall::Garbage => Binary::from(b"{\"no_such_call\":{}}".to_vec()),
    };
    WasmMsg::Execute { contract_addr: me.to_string(), msg: body, funds: vec![] }.into()
}

/// the self-directed calls among `msgs`, in order (other messages are not the proxy's business)
fn parse_self(me: &str, msgs: &[CosmosMsg]) -> Vec<SelfCall> {
    msgs.iter()
        .filter_map(|m| match m {
            CosmosMsg::Wasm(WasmMsg::Execute { contract_addr, msg, .. }) if contract_addr == me => Some(match cosmwasm_std::from_json::<WlMsg<Empty>>(msg) {
                Ok(WlMsg::UpdateAdmins { admins }) => SelfCall::Update(admins),
                Ok(WlMsg::Freeze {}) => SelfCall::Freeze,
                Ok(WlMsg::Execute { msgs }) => SelfCall::Exec(parse_self(me, &msgs)),
                Err(_) => SelfCall::Garbage,
            }),
            _ => None,
        })
        .collect()
}

/// what the statement allows the proxy's own calls to do: they count as calls by the address `me`
fn simulate(me: &str, admins: &mut Vec<String>, mutable: &mut bool, calls: &[SelfCall]) -> bool {
    for c in calls {
        let is_admin = admins.iter().any(|a| a == me);
        match c {
            SelfCall::Update(l) => {
                if !is_admin || !*mutable {
                    return false;
                }
                *admins = l.clone();
            }
            SelfCall::Freeze => {
                if !is_admin || !*mutable {
                    return false;
                }
                *mutable = false;
            }
            SelfCall::Exec(inner) => {
                if !is_admin || !simulate(me, admins, mutable, inner) {
                    return false;
                }
            }
            SelfCall::Garbage => return false,
        }
    }
    true
}

impl C17 {
    fn step(&self, h: &mut Hist, p: &mut Proxy, frozen_seen: &mut bool, former: &mut Vec<String>, pre: &mut Snap, sender: &str, op: &Op) -> bool {
        let r = p.exec(sender, op);
        log_op(h, p, sender, op, &r);
        h.out.evaluations += 1;
        if let Res::Abort(_) = &r {
            h.out.abort(&crate::direct::last_panic_site());
        }
        let post = p.snap();
        let ok = r.is_ok();
        let kind = op.kind();
        let was_admin = pre.admins.iter().any(|a| a == sender);
        if !was_admin && pre.admins.iter().any(|a| a.eq_ignore_ascii_case(sender)) {
            h.out.count("calls_by_lookalike_of_an_admin");
        }
        let is_former = !was_admin && former.iter().any(|f| f == sender);
        let class = if was_admin { 0 } else if is_former { 1 } else if pre.raw.contains_key(sender) || pre.perms.contains_key(sender) { 2 } else { 3 };
        h.out.distinct(&(p.kind, kind, r.class(), class, pre.mutable));
        h.out.state(&(post.admins.len(), post.mutable, post.raw.len(), post.perms.len()));

        let list_changed = pre.admins != post.admins || pre.mutable != post.mutable;
        // calls the proxy relays to itself are calls by the proxy's address: they may change the list only if
        // that address is an admin at that moment and the list is still mutable
        let me = p.w.contract.to_string();
        let via_self = match op {
            Op::Execute { msgs } if was_admin => {
                let calls = parse_self(&me, msgs);
                if calls.is_empty() {
                    None
                } else {
                    h.out.count("relays_to_the_proxy_itself");
                    let (mut a, mut m) = (pre.admins.clone(), pre.mutable);
                    if simulate(&me, &mut a, &mut m, &calls) {
                        Some((a, m))
                    } else {
                        None
                    }
                }
            }
            _ => None,
        };
        if list_changed {
            let by_self = ok && via_self.as_ref().map(|(a, m)| *a == post.admins && *m == post.mutable).unwrap_or(false);
            if by_self {
                h.out.count("list_changes_through_a_self_relay_by_an_admin_proxy");
                for a in &pre.admins {
                    if !post.admins.contains(a) && !former.contains(a) {
                        former.push(a.clone());
                    }
                }
            }
            let legit = by_self || ok && was_admin && pre.mutable && matches!(op, Op::UpdateAdmins { .. } | Op::Freeze);
            if !h.check(legit, &format!("C17/{:?}/{kind}/admin-list-changed-without-authority", p.kind), || {
                format!("admins {:?}/{} -> {:?}/{} in {kind} by {sender} (admin={was_admin}, mutable={}, ok={ok})", pre.admins, pre.mutable, post.admins, post.mutable, pre.mutable)
            }) {
                return false;
            }
            if !h.check(!(post.mutable && !pre.mutable), &format!("C17/{:?}/{kind}/unfrozen", p.kind), || "mutable went false -> true".into()) {
                return false;
            }
        }
        if !pre.mutable || *frozen_seen {
            h.out.count("calls_after_freeze");
            if let Op::Execute { msgs } = op {
                if was_admin && !parse_self(&me, msgs).is_empty() {
                    h.out.count("self_relays_on_a_frozen_proxy");
                }
            }
            if !h.check(!list_changed, &format!("C17/{:?}/{kind}/changed-after-freeze", p.kind), || {
                format!("{:?}/{} -> {:?}/{}", pre.admins, pre.mutable, post.admins, post.mutable)
            }) {
                return false;
            }
            if matches!(op, Op::UpdateAdmins { .. } | Op::Freeze) {
                if was_admin {
                    h.out.count("admin_retries_after_freeze");
                }
                if !h.check(!ok, &format!("C17/{:?}/{kind}/accepted-after-freeze", p.kind), || format!("{kind} accepted on a frozen proxy")) {
                    return false;
                }
            }
        }
        match op {
            Op::UpdateAdmins { admins } => {
                if ok {
                    h.out.count("update_admins_ok");
                    if !h.check(post.admins == *admins, &format!("C17/{:?}/update_admins/list-differs-from-request", p.kind), || {
                        format!("requested {admins:?}, stored {:?}", post.admins)
                    }) {
                        return false;
                    }
                    for a in &pre.admins {
                        if !post.admins.contains(a) && !former.contains(a) {
                            former.push(a.clone());
                        }
                    }
                } else {
                    if is_former {
                        h.out.count("former_admin_update_rejected");
                    }
                    if class >= 2 {
                        h.out.count("non_admin_update_rejected");
                    }
                }
            }
            Op::Freeze => {
                if ok {
                    h.out.count("freezes_ok");
                    if !h.check(!post.mutable && post.admins == pre.admins, &format!("C17/{:?}/freeze/not-frozen-or-list-changed", p.kind), || {
                        format!("after Freeze: mutable={} admins {:?} -> {:?}", post.mutable, pre.admins, post.admins)
                    }) {
                        return false;
                    }
                } else if !was_admin {
                    h.out.count("non_admin_freeze_rejected");
                }
            }
            _ => {}
        }
        if !post.mutable {
            *frozen_seen = true;
        }
        // allowances / permissions are created or altered only by current admins (own spends excepted)
        if p.kind == Kind::Subkeys {
            let own_spend = matches!(op, Op::Execute { .. });
            for (a, v0) in pre.raw.iter().map(|(a, v)| (a, Some(v))).chain(post.raw.keys().filter(|a| !pre.raw.contains_key(*a)).map(|a| (a, None))) {
                let v1 = post.raw.get(a);
                h.out.oracle_checks += 1;
                if v0 != v1 {
                    let by_admin = ok && was_admin && matches!(op, Op::Inc { .. } | Op::Dec { .. });
                    let by_own_spend = ok && own_spend && a == sender && !was_admin;
                    // an own spend may only lower the caller's own coins: never touch the expiry, never raise anything
                    if by_own_spend && !by_admin {
                        let fine = match (v0, v1) {
                            (Some(b), Some(a)) => {
                                let (mb, ma) = (b.map(), a.map());
                                b.exp == a.exp && ma.iter().all(|(d, x)| *x <= *mb.get(d).unwrap_or(&0))
                            }
                            (Some(_), None) => false,
                            _ => false,
                        };
                        if !fine {
                            h.violate(
                                "C17/Subkeys/execute/own-spend-altered-allowance-beyond-deduction",
                                format!("allowance of {a}: {v0:?} -> {v1:?} in its own Execute"),
                            );
                            return false;
                        }
                    }
                    if !(by_admin || by_own_spend) {
                        h.violate(
                            &format!("C17/Subkeys/{kind}/allowance-changed-without-admin"),
                            format!("allowance of {a}: {v0:?} -> {v1:?} in {kind} by {sender} (admin={was_admin}, ok={ok})"),
                        );
                        return false;
                    }
                }
            }
            if pre.perms != post.perms {
                let by_admin = ok && was_admin && matches!(op, Op::SetPerm { .. });
                if !h.check(by_admin, &format!("C17/Subkeys/{kind}/permissions-changed-without-admin"), || {
                    format!("permissions {:?} -> {:?} in {kind} by {sender} (admin={was_admin}, ok={ok})", pre.perms, post.perms)
                }) {
                    return false;
                }
            }
            if matches!(op, Op::Inc { .. } | Op::Dec { .. } | Op::SetPerm { .. }) {
                if ok {
                    h.out.count("grant_calls_ok");
                    if !h.check(was_admin, &format!("C17/Subkeys/{kind}/accepted-from-non-admin"), || format!("{sender} is not an admin")) {
                        return false;
                    }
                } else if !was_admin {
                    h.out.count("grant_calls_by_non_admin_rejected");
                    if is_former {
                        h.out.count("grant_calls_by_former_admin_rejected");
                    }
                }
            }
        }
        *pre = post;
        true
    }
}

impl Monitor for C17 {
    fn id(&self) -> &'static str {
        "C17"
    }
    fn engine(&self) -> &'static str {
        "cwv-direct"
    }
    fn histories(&self, tier: Tier) -> u64 {
        tier.pick(3_000, 600_000)
    }
    fn mandatory(&self) -> Vec<&'static str> {
        vec![
            "update_admins_ok",
            "freezes_ok",
            "calls_after_freeze",
            "admin_retries_after_freeze",
            "former_admin_update_rejected",
            "non_admin_update_rejected",
            "non_admin_freeze_rejected",
            "grant_calls_ok",
            "grant_calls_by_non_admin_rejected",
            "grant_calls_by_former_admin_rejected",
            "immutable_instantiations",
            "migrations_run",
            "migrations_of_a_frozen_proxy",
            "calls_by_lookalike_of_an_admin",
            "relays_to_the_proxy_itself",
            "list_changes_through_a_self_relay_by_an_admin_proxy",
            "self_relays_on_a_frozen_proxy",
        ]
    }
    fn rule(&self) -> &'static str {
        "seeded random histories on both proxies with admin sets of 0-4 (duplicates, invalid entries), mutable and immutable instantiation, UpdateAdmins / Freeze / allowance / permission / Execute calls by current admins, removed admins, subkeys and strangers, continuing long after Freeze; after every call AdminList and all stored allowances and permissions are compared with the pre-state. Messages an admin asks the proxy to relay TO ITSELF (UpdateAdmins / Freeze / nested Execute / garbage) are delivered inside the same transaction with the proxy as sender and judged against an explicit model (they count as calls by the proxy address; some proxies are their own admin); subkeys histories are upgraded in mid-life through the real migrate. distinct = (proxy kind, operation, outcome, caller class admin/former/subkey/stranger, mutable?)"
    }
    fn assumptions(&self) -> Vec<&'static str> {
        vec!["only executed histories are judged"]
    }
    fn run_history(&self, h: &mut Hist) {
        let kind = if h.idx % 2 == 0 { Kind::Whitelist } else { Kind::Subkeys };
        let mut p = Proxy::new(&mut h.rng, kind);
        p.dispatch_self = true;
        let (mut admins, mutable) = gen_admins(&mut h.rng);
        if h.rng.chance(1, 5) {
            admins.push(p.w.contract.to_string()); // a proxy that administers itself
        }
        let r = p.instantiate(admins.clone(), mutable);
        h.note(format!("{kind:?} instantiate admins={admins:?} mutable={mutable} => {}", r.class()));
        if !r.is_ok() {
            return;
        }
        if !mutable {
            h.out.count("immutable_instantiations");
        }
        let mut pre = p.snap();
        if !h.check(pre.admins == admins && pre.mutable == mutable, "C17/instantiate/list-differs-from-request", || {
            format!("requested {admins:?}/{mutable}, stored {:?}/{}", pre.admins, pre.mutable)
        }) {
            return;
        }
        let mut frozen = !mutable;
        let mut former: Vec<String> = vec![];
        let n = h.tier.pick(60, 100);
        let migrate_at = if kind == Kind::Subkeys && h.idx % 3 == 1 { h.rng.range(5, 50) as usize } else { usize::MAX };
        for i in 0..n {
            if i == migrate_at {
                // upgrade from an older release: code migration must not touch the admin list / frozen flag / grants
                let v = *h.rng.pick(&["0.13.4", "0.9.1", "1.0.0", "1.1.2", "2.0.0", "0.7.0", "0.2.3", "0.16.0"]);
                cw2::set_contract_version(&mut p.w.store, "crates.io:cw1-subkeys", v).unwrap();
                let r = p.w.tx(|d, e| cw1_subkeys::contract::migrate(d, e, cosmwasm_std::Empty {}));
                h.out.evaluations += 1;
                h.note(format!("migrate from {v} => {}", r.class()));
                if r.is_ok() {
                    h.out.count("migrations_run");
                    if !pre.mutable {
                        h.out.count("migrations_of_a_frozen_proxy");
                    }
                }
                let post = p.snap();
                if !h.check(post == pre, "C17/Subkeys/migrate/admin-list-flag-or-grants-changed-by-migration", || {
                    format!("migrate from {v}: {pre:?} -> {post:?}")
                }) {
                    return;
                }
                continue;
            }
            if h.rng.chance(1, 8) {
                let s = pre.clone();
                gen_advance(&mut h.rng, &mut p, &s);
                pre = p.snap();
            }
            let (mut sender, mut op) = gen_op(&mut h.rng, &p, &pre);
            if !former.is_empty() && h.rng.chance(1, 5) {
                sender = h.rng.pick_cloned(&former);
            }
            let me = p.w.contract.to_string();
            if let (Op::UpdateAdmins { admins }, true) = (&mut op, h.rng.chance(1, 6)) {
                admins.push(me.clone()); // the proxy as one of its own admins
            }
            if h.rng.chance(1, 7) {
                // ask the proxy to relay administration calls to itself
                let pl = crate::cw20w::pool();
                let one = |rng: &mut crate::rng::Rng| match rng.below(8) {
                    0..=3 => {
                        let mut l: Vec<String> = (0..rng.below(4)).map(|_| rng.pick_cloned(&pl.actors[..4])).collect();
                        if rng.chance(1, 2) {
                            l.push(me.clone());
                        }
                        SelfCall::Update(l)
                    }
                    4 | 5 => SelfCall::Freeze,
                    6 => SelfCall::Garbage,
                    _ => SelfCall::Exec(vec![if rng.chance(1, 2) { SelfCall::Freeze } else { SelfCall::Update(vec![rng.pick_cloned(&pl.actors[..4]), me.clone()]) }]),
                };
                let k = 1 + h.rng.below(2);
                let calls: Vec<SelfCall> = (0..k).map(|_| one(&mut h.rng)).collect();
                op = Op::Execute { msgs: calls.iter().map(|c| self_msg(&me, c)).collect() };
                if !pre.admins.is_empty() && h.rng.chance(4, 5) {
                    sender = h.rng.pick_cloned(&pre.admins);
                }
            }
            if !self.step(h, &mut p, &mut frozen, &mut former, &mut pre, &sender, &op) {
                return;
            }
        }
    }
}

//! C04 — cw3 threshold arithmetic: exact, rounds up, decides early only soundly.
//! Pure library monitor: constructed `cw3::Proposal` values against the exact reference.

use crate::core::{Hist, Monitor, Tier};
use crate::direct::{install_panic_hook, last_panic_site};
use crate::refmodel::*;
use cosmwasm_std::{Addr, BlockInfo, Decimal, Timestamp, Uint128};
use cw3::{Proposal, Status, Votes};
use cw_utils::{Expiration, Threshold};
use std::panic::{catch_unwind, AssertUnwindSafe};

pub struct C04;

pub fn to_threshold(rule: Rule) -> Threshold {
    let d = |a: u128| Decimal::from_atomics(Uint128::new(a), 18).unwrap();
    match rule {
        Rule::Count(w) => Threshold::AbsoluteCount { weight: w },
        Rule::Pct(p) => Threshold::AbsolutePercentage { percentage: d(p) },
        Rule::Quorum(p, q) => Threshold::ThresholdQuorum {
            threshold: d(p),
            quorum: d(q),
        },
    }
}

/// expiry kinds: 0 = AtHeight(100), 1 = AtTime(whole second), 2 = AtTime(with a sub-second part)
fn mk(rule: Rule, total: u64, t: Tally) -> Proposal {
    mk_k(rule, total, t, 0)
}

const T_WHOLE: u64 = 1_700_000_000_000_000_000;
const T_FRAC: u64 = 1_700_000_000_640_000_000;

fn mk_k(rule: Rule, total: u64, t: Tally, kind: u8) -> Proposal {
    Proposal {
        title: "t".into(),
        description: "d".into(),
        start_height: 10,
        expires: match kind {
            0 => Expiration::AtHeight(100),
            1 => Expiration::AtTime(Timestamp::from_nanos(T_WHOLE)),
            _ => Expiration::AtTime(Timestamp::from_nanos(T_FRAC)),
        },
        msgs: vec![],
        status: Status::Open,
        threshold: to_threshold(rule),
        total_weight: total,
        votes: Votes {
            yes: t.yes,
            no: t.no,
            abstain: t.abstain,
            veto: t.veto,
        },
        proposer: Addr::unchecked("proposer"),
        deposit: None,
    }
}

fn block(expired: bool) -> BlockInfo {
    block_k(expired, 0, 0)
}

/// `near`: 0 = one whole unit before/at the expiry, 1 = the closest instant (1 ns before / exactly at),
/// 2 = same whole second as the expiry but before it (only meaningful for kind 2)
fn block_k(expired: bool, kind: u8, near: u8) -> BlockInfo {
    let (height, time) = match kind {
        0 => (if expired { 100 } else { 99 }, 1_600_000_000_000_000_000),
        1 => (50, if expired { T_WHOLE + if near == 1 { 0 } else { 1_000_000_000 } } else { T_WHOLE - if near == 1 { 1 } else { 1_000_000_000 } }),
        _ => (
            50,
            if expired {
                T_FRAC + if near == 1 { 0 } else { 360_000_000 }
            } else {
                match near {
                    1 => T_FRAC - 1,
                    2 => T_FRAC - 600_000_000, // same whole second, earlier
                    _ => T_FRAC - 1_000_000_000,
                }
            },
        ),
    };
    BlockInfo { height, time: Timestamp::from_nanos(time), chain_id: "c".into() }
}

const GRID_P: [u128; 9] = [
    500_000_000_000_000_000,
    500_000_001_000_000_000,
    510_000_000_000_000_000,
    600_000_000_000_000_000,
    666_666_667_000_000_000,
    750_000_000_000_000_000,
    900_000_000_000_000_000,
    999_999_999_000_000_000,
    1_000_000_000_000_000_000,
];
const GRID_Q: [u128; 9] = [
    1_000_000_000,
    10_000_000_000_000_000,
    100_000_000_000_000_000,
    333_333_333_000_000_000,
    400_000_000_000_000_000,
    500_000_000_000_000_000,
    750_000_000_000_000_000,
    999_999_999_000_000_000,
    1_000_000_000_000_000_000,
];

fn one_case(h: &mut Hist, rule: Rule, total: u64, t: Tally, expired: bool) -> bool {
    // spread the cases over expiry kinds and instants (deterministically from the case itself)
    let mix = (total ^ t.yes.rotate_left(7) ^ t.no.rotate_left(13) ^ t.abstain.rotate_left(29) ^ (expired as u64)) % 7;
    let (ek, near) = match mix {
        0 | 1 | 2 => (0u8, 0u8),
        3 => (1, 1),
        4 => (2, 1),
        5 => (2, 2),
        _ => (2, 0),
    };
    let _ = (mk, block);
    if ek != 0 {
        h.out.count("cases_with_time_based_expiry");
        if ek == 2 && near == 2 && !expired {
            h.out.count("cases_in_the_same_second_before_a_time_expiry");
        }
    }
    let kind = rule_kind(rule);
    let p = mk_k(rule, total, t, ek);
    let b = block_k(expired, ek, near);
    let lib = catch_unwind(AssertUnwindSafe(|| {
        (p.is_passed(&b), p.is_rejected(&b), p.current_status(&b))
    }));
    h.out.evaluations += 1;
    let (passed, rejected, status) = match lib {
        Ok(x) => x,
        Err(_) => {
            // inside the stated domain (tally <= total, validated threshold) the library must not abort
            h.out.abort(&last_panic_site());
            h.violate(
                &format!("C04/{kind}/library-aborts-inside-domain"),
                format!("{rule:?} total={total} {t:?} expired={expired}: panic at {}", crate::direct::last_panic()),
            );
            return false;
        }
    };
    let exact = rule_exact(rule);
    let r = (total as u128 - t.voted()) as u64;
    let fin = pass_final(rule, total, t);
    let now = pass_now(rule, total, t);
    let can = can_still_pass(rule, total, t);
    let base_zero = match rule {
        Rule::Pct(_) => total == t.abstain,
        Rule::Quorum(..) => t.yes + t.no + t.veto == 0,
        _ => false,
    };
    h.out.distinct(&(kind, expired, passed, rejected, t.yes == 0, base_zero, exact, r == 0, total > u32::MAX as u64));
    if t.yes == 0 {
        h.out.count("cases_with_zero_yes");
    }
    if base_zero {
        h.out.count("cases_with_degenerate_base");
    }
    if !exact {
        h.out.count("cases_with_10_to_18_decimals");
    }
    if total > (1u64 << 62) {
        h.out.count("cases_with_total_near_u64_max");
    }

    // cross-check the closed forms by brute force when few votes are outstanding
    if !expired && r <= 6 {
        let (all, some) = brute(rule, total, t);
        h.out.count("brute_force_cross_checks");
        if all != now || some != can {
            // a defect of the harness' own reference, not of cw3: never report as violation
            h.out.inconclusive = Some(format!(
                "reference closed form disagrees with brute force for {rule:?} total={total} {t:?}: all={all} now={now} some={some} can={can}"
            ));
            return false;
        }
    }

    // never passed without Yes weight
    if !h.check(!(passed && t.yes == 0), &format!("C04/{kind}/passed-with-zero-yes"), || {
        format!("{rule:?} total={total} {t:?} expired={expired}: is_passed()=true with no Yes weight")
    }) {
        return false;
    }
    // never both
    if !h.check(!(passed && rejected), &format!("C04/{kind}/both-passed-and-rejected"), || {
        format!("{rule:?} total={total} {t:?} expired={expired}")
    }) {
        return false;
    }
    if exact {
        if expired {
            if !h.check(passed == fin, &format!("C04/{kind}/expired-decision-differs-from-exact-formula"), || {
                format!("{rule:?} total={total} {t:?}: library passed={passed}, exact formula={fin}")
            }) {
                return false;
            }
            if !h.check(!(rejected && fin), &format!("C04/{kind}/expired-rejected-although-formula-passes"), || {
                format!("{rule:?} total={total} {t:?}")
            }) {
                return false;
            }
        } else {
            if passed {
                h.out.count("early_pass_decisions_checked");
            }
            if !h.check(!passed || now, &format!("C04/{kind}/early-pass-unsound"), || {
                format!("{rule:?} total={total} {t:?}: passed before expiry although a completion of the {r} outstanding votes fails")
            }) {
                return false;
            }
            if rejected {
                h.out.count("early_reject_decisions_checked");
            }
            if !h.check(!rejected || !can, &format!("C04/{kind}/early-reject-unsound"), || {
                format!("{rule:?} total={total} {t:?}: rejected before expiry although the {r} outstanding votes could still pass it")
            }) {
                return false;
            }
        }
    } else {
        // 10..18 decimals: within one vote, never stricter than exact
        let reference = if expired { fin } else { now };
        if !h.check(!reference || passed || t.yes == 0, &format!("C04/{kind}/stricter-than-exact"), || {
            format!("{rule:?} total={total} {t:?} expired={expired}: exact formula passes, library does not")
        }) {
            return false;
        }
        if passed {
            let t1 = Tally { yes: t.yes + 1, ..t };
            // one more Yes vote (taken from nowhere) must satisfy the exact ratio requirement
            let ok1 = match rule {
                Rule::Pct(pp) => meets(t1.yes as u128, (total - t.abstain) as u128, pp),
                Rule::Quorum(pp, _) => {
                    let base = if expired { (t.yes + t.no + t.veto) as u128 } else { (total - t.abstain) as u128 };
                    meets(t1.yes as u128, base, pp)
                }
                Rule::Count(_) => true,
            };
            if !h.check(ok1, &format!("C04/{kind}/more-than-one-vote-below-exact"), || {
                format!("{rule:?} total={total} {t:?} expired={expired}")
            }) {
                return false;
            }
        }
    }
    // current_status on an Open proposal follows the two predicates
    let want = if passed {
        Status::Passed
    } else if rejected || expired {
        Status::Rejected
    } else {
        Status::Open
    };
    h.check(status == want, &format!("C04/{kind}/current-status-inconsistent"), || {
        format!("{rule:?} total={total} {t:?} expired={expired}: current_status={status:?}, predicates imply {want:?}")
    })
}

fn rules_for(total: u64) -> Vec<Rule> {
    let mut v = vec![];
    for w in 1..=total {
        v.push(Rule::Count(w));
    }
    for p in GRID_P {
        v.push(Rule::Pct(p));
    }
    for p in GRID_P {
        for q in GRID_Q {
            v.push(Rule::Quorum(p, q));
        }
    }
    v
}

fn gen_pct(rng: &mut crate::rng::Rng, lo: u128) -> u128 {
    // lo..=ONE with 1..18 significant decimals
    let digits = rng.range(1, 18) as u32;
    let unit = 10u128.pow(18 - digits);
    let x = rng.range128(lo, ONE);
    let x = x / unit * unit;
    x.clamp(if lo == 0 { unit.max(1) } else { lo }, ONE)
}

impl Monitor for C04 {
    fn id(&self) -> &'static str {
        "C04"
    }
    fn engine(&self) -> &'static str {
        "cwv-direct"
    }
    fn histories(&self, tier: Tier) -> u64 {
        // 0..=9: exhaustive small scope for total = idx; then random batches
        10 + tier.pick(600, 200_000)
    }
    fn mandatory(&self) -> Vec<&'static str> {
        vec![
            "cases_with_zero_yes",
            "cases_with_degenerate_base",
            "cases_with_10_to_18_decimals",
            "cases_with_total_near_u64_max",
            "brute_force_cross_checks",
            "early_pass_decisions_checked",
            "early_reject_decisions_checked",
            "tallies_at_requirement_boundary",
            "cases_with_time_based_expiry",
            "cases_in_the_same_second_before_a_time_expiry",
        ]
    }
    fn exhaustive_part(&self) -> Option<&'static str> {
        Some("every total 0..=9, every split into yes/no/abstain/veto/unvoted, every AbsoluteCount weight 1..=total, 9 percentages x (alone | 9 quorums), expired and not")
    }
    fn rule(&self) -> &'static str {
        "constructed cw3::Proposal values evaluated with is_passed / is_rejected / current_status and compared with an exact u128 cross-multiplication reference; early decisions additionally brute-forced over all completions when <= 6 votes are outstanding. Part (a) enumerates the small scope completely, part (b) is seeded random over u64 with totals {2^64-1, 2^63, 1e18, random}, tallies at requirement -1/0/+1 and thresholds with 1..18 decimals. Expiries are by height, by time on a whole second and by time with a sub-second part, the block placed in the same second just before / exactly at / after the expiry. distinct = (rule kind, expired, lib passed, lib rejected, yes==0, degenerate base, <=9 decimals?, nothing outstanding?, total > 2^32)"
    }
    fn assumptions(&self) -> Vec<&'static str> {
        vec![
            "domain as stated: tallies never exceed the total weight, thresholds satisfy Threshold::validate",
            "cosmwasm Decimal is an exact 18-decimal fixed point (its atomics are used as the ground truth of the configured percentage)",
        ]
    }
    fn run_history(&self, h: &mut Hist) {
        install_panic_hook();
        if h.idx < 10 {
            let total = h.idx;
            let rules = rules_for(total);
            let mut n = 0u64;
            for y in 0..=total {
                for no in 0..=(total - y) {
                    for a in 0..=(total - y - no) {
                        for v in 0..=(total - y - no - a) {
                            let t = Tally { yes: y, no, abstain: a, veto: v };
                            for rule in &rules {
                                for expired in [false, true] {
                                    n += 1;
                                    if !one_case(h, *rule, total, t, expired) {
                                        return;
                                    }
                                }
                            }
                        }
                    }
                }
            }
            h.out.add("exhaustive_small_scope_cases", n);
            h.note(format!("exhaustive scope total={total}: {n} cases"));
            return;
        }
        // random batch
        let batch = 2000;
        for i in 0..batch {
            let total = match h.rng.below(8) {
                0 => u64::MAX,
                1 => 1u64 << 63,
                2 => 1_000_000_000_000_000_000,
                3 => h.rng.range(1, 50),
                4 => h.rng.range(1, 100_000),
                5 => u64::MAX - h.rng.below(1000),
                _ => h.rng.next_u64().max(1),
            };
            let rule = match h.rng.below(3) {
                0 => Rule::Count(h.rng.range(1, total)),
                1 => Rule::Pct(gen_pct(&mut h.rng, ONE / 2)),
                _ => Rule::Quorum(gen_pct(&mut h.rng, ONE / 2), gen_pct(&mut h.rng, 0)),
            };
            // abstain first, then aim yes at the requirement boundary
            let a = match h.rng.below(5) {
                0 => 0,
                1 => total,
                2 => total - h.rng.below(3).min(total),
                _ => h.rng.range(0, total),
            };
            let rest = total - a;
            let need: u128 = match rule {
                Rule::Count(w) => w as u128,
                Rule::Pct(p) | Rule::Quorum(p, _) => {
                    let x = rest as u128 * p;
                    (x + ONE - 1) / ONE
                }
            };
            // besides the exact boundary, probe just below it at distances a precision-losing
            // implementation would be wrong by (relative 1e-9, 1e-6, 2^-30 of the weight)
            let yes = match h.rng.below(10) {
                0 => need.saturating_sub(1),
                1 => need,
                2 => need + 1,
                3 => 0,
                4 => need.saturating_sub(2),
                5 => need.saturating_sub((total as u128 / 1_000_000_000).max(2)),
                6 => need.saturating_sub((total as u128 / 1_000_000).max(3)),
                7 => need.saturating_sub((total as u128 >> 30).max(2)),
                _ => h.rng.range(0, rest) as u128,
            }
            .min(rest as u128) as u64;
            if (yes as u128 + 1 >= need) && (yes as u128) <= need + 1 {
                h.out.count("tallies_at_requirement_boundary");
            }
            let rest2 = rest - yes;
            let no = match h.rng.below(4) {
                0 => 0,
                1 => rest2,
                _ => h.rng.range(0, rest2),
            };
            let rest3 = rest2 - no;
            let veto = match h.rng.below(3) {
                0 => 0,
                1 => rest3.min(h.rng.below(7)),
                _ => h.rng.range(0, rest3),
            };
            let t = Tally { yes, no, abstain: a, veto };
            let expired = h.rng.chance(1, 2);
            if i < 8 {
                h.log(|| format!("{rule:?} total={total} {t:?} expired={expired}"));
            }
            if !one_case(h, rule, total, t, expired) {
                return;
            }
        }
    }
}

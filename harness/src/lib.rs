pub mod core;
pub mod cw1w;
pub mod cw20w;
pub mod cw4w;
pub mod direct;
pub mod monitor;
pub mod refmodel;
pub mod rng;

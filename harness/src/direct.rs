//! DirectDriver: the real entry points over a transactional in-memory storage.
//! A call that returns Err or panics is rolled back (that is exactly what the chain does).

use cosmwasm_std::testing::{MockApi, MockQuerier};
use cosmwasm_std::{
    Addr, Api, BlockInfo, CanonicalAddr, ContractInfo, Deps, DepsMut, Empty, Env, MessageInfo,
    Order, QuerierWrapper, RecoverPubkeyError, Record, StdResult, Storage, Timestamp,
    TransactionInfo, VerificationError,
};
use std::collections::HashMap;
use std::cell::RefCell;
use std::collections::BTreeMap;
use std::ops::Bound;
use std::panic::{catch_unwind, AssertUnwindSafe};
use std::sync::Once;

#[derive(Clone, Default, PartialEq, Eq, Hash, Debug)]
pub struct MemStorage {
    pub data: BTreeMap<Vec<u8>, Vec<u8>>,
}

impl Storage for MemStorage {
    fn get(&self, key: &[u8]) -> Option<Vec<u8>> {
        self.data.get(key).cloned()
    }
    fn range<'a>(
        &'a self,
        start: Option<&[u8]>,
        end: Option<&[u8]>,
        order: Order,
    ) -> Box<dyn Iterator<Item = Record> + 'a> {
        let lo = match start {
            Some(s) => Bound::Included(s.to_vec()),
            None => Bound::Unbounded,
        };
        let hi = match end {
            Some(e) => Bound::Excluded(e.to_vec()),
            None => Bound::Unbounded,
        };
        if let (Bound::Included(s), Bound::Excluded(e)) = (&lo, &hi) {
            if s > e {
                return Box::new(std::iter::empty());
            }
            if s == e {
                return Box::new(std::iter::empty());
            }
        }
        let it = self
            .data
            .range((lo, hi))
            .map(|(k, v)| (k.clone(), v.clone()));
        match order {
            Order::Ascending => Box::new(it),
            Order::Descending => Box::new(it.rev()),
        }
    }
    fn set(&mut self, key: &[u8], value: &[u8]) {
        if value.is_empty() {
            panic!("TL;DR: Value must not be empty in Storage::set but in most cases you can use Storage::remove instead.");
        }
        self.data.insert(key.to_vec(), value.to_vec());
    }
    fn remove(&mut self, key: &[u8]) {
        self.data.remove(key);
    }
}

/// MockApi with a memo of *successful* address validations. addr_validate is a pure function
/// of its input, so the memo is semantically transparent; it only removes the bech32 cost that
/// otherwise dominates monitored runs. Failures always go to the real MockApi.
#[derive(Default)]
pub struct CachedApi {
    pub inner: MockApi,
    memo: RefCell<HashMap<String, Addr>>,
}

impl Api for CachedApi {
    fn addr_validate(&self, human: &str) -> StdResult<Addr> {
        if let Some(a) = self.memo.borrow().get(human) {
            return Ok(a.clone());
        }
        let a = self.inner.addr_validate(human)?;
        let mut m = self.memo.borrow_mut();
        if m.len() < 4096 {
            m.insert(human.to_string(), a.clone());
        }
        Ok(a)
    }
    fn addr_canonicalize(&self, human: &str) -> StdResult<CanonicalAddr> {
        self.inner.addr_canonicalize(human)
    }
    fn addr_humanize(&self, canonical: &CanonicalAddr) -> StdResult<Addr> {
        self.inner.addr_humanize(canonical)
    }
    fn secp256k1_verify(&self, h: &[u8], s: &[u8], p: &[u8]) -> Result<bool, VerificationError> {
        self.inner.secp256k1_verify(h, s, p)
    }
    fn secp256k1_recover_pubkey(&self, h: &[u8], s: &[u8], r: u8) -> Result<Vec<u8>, RecoverPubkeyError> {
        self.inner.secp256k1_recover_pubkey(h, s, r)
    }
    fn ed25519_verify(&self, m: &[u8], s: &[u8], p: &[u8]) -> Result<bool, VerificationError> {
        self.inner.ed25519_verify(m, s, p)
    }
    fn ed25519_batch_verify(&self, m: &[&[u8]], s: &[&[u8]], p: &[&[u8]]) -> Result<bool, VerificationError> {
        self.inner.ed25519_batch_verify(m, s, p)
    }
    fn debug(&self, message: &str) {
        self.inner.debug(message)
    }
}

thread_local! {
    static LAST_PANIC: RefCell<String> = RefCell::new(String::new());
}

static HOOK: Once = Once::new();

/// Install a quiet panic hook that only remembers where the panic happened.
pub fn install_panic_hook() {
    HOOK.call_once(|| {
        std::panic::set_hook(Box::new(|info| {
            let loc = info
                .location()
                .map(|l| {
                    let f = l.file();
                    let short = f.rsplit("/").take(3).collect::<Vec<_>>();
                    let short: Vec<&str> = short.into_iter().rev().collect();
                    format!("{}:{}", short.join("/"), l.line())
                })
                .unwrap_or_else(|| "unknown".into());
            let msg = if let Some(s) = info.payload().downcast_ref::<&str>() {
                s.to_string()
            } else if let Some(s) = info.payload().downcast_ref::<String>() {
                s.clone()
            } else {
                String::new()
            };
            LAST_PANIC.with(|p| *p.borrow_mut() = format!("{loc} {msg}"));
            if std::env::var("CWV_SHOW_PANICS").is_ok() {
                eprintln!("panic at {loc}: {msg}");
            }
        }));
    });
}

pub fn last_panic() -> String {
    LAST_PANIC.with(|p| p.borrow().clone())
}

/// site of the last panic without the message (for counting)
pub fn last_panic_site() -> String {
    let s = last_panic();
    s.split(' ').next().unwrap_or("unknown").to_string()
}

/// Is the panic location inside harness code (as opposed to code under test / libraries)?
pub fn panic_in_harness() -> bool {
    let s = last_panic();
    s.contains("harness/src") || s.starts_with("src/")
}

#[derive(Debug, Clone)]
pub enum Res<T> {
    Ok(T),
    Err(String),
    /// contract code panicked: an aborted transaction, rolled back
    Abort(String),
}

impl<T> Res<T> {
    pub fn is_ok(&self) -> bool {
        matches!(self, Res::Ok(_))
    }
    pub fn class(&self) -> &'static str {
        match self {
            Res::Ok(_) => "ok",
            Res::Err(_) => "err",
            Res::Abort(_) => "abort",
        }
    }
    pub fn ok(self) -> Option<T> {
        match self {
            Res::Ok(t) => Some(t),
            _ => None,
        }
    }
    pub fn err_text(&self) -> String {
        match self {
            Res::Ok(_) => String::new(),
            Res::Err(e) => e.clone(),
            Res::Abort(e) => format!("ABORT {e}"),
        }
    }
}

pub struct World {
    pub store: MemStorage,
    pub api: CachedApi,
    pub querier: MockQuerier,
    pub block: BlockInfo,
    pub contract: Addr,
}

/// the migration admin the chain reports for every contract under test (never one of the actors)
pub fn chain_admin() -> String {
    static A: std::sync::OnceLock<String> = std::sync::OnceLock::new();
    A.get_or_init(|| mk_addr("chain-admin")).clone()
}

pub fn mk_addr(name: &str) -> String {
    MockApi::default().addr_make(name).into_string()
}

impl World {
    pub fn new(height: u64, time_s: u64) -> World {
        install_panic_hook();
        // the chain knows every contract's migration admin: contracts may ask (WasmQuery::ContractInfo)
        let mut querier = MockQuerier::default();
        querier.update_wasm(|q| match q {
            cosmwasm_std::WasmQuery::ContractInfo { .. } => {
                let info = cosmwasm_std::ContractInfoResponse::new(1, Addr::unchecked(mk_addr("creator")), Some(Addr::unchecked(chain_admin())), false, None);
                cosmwasm_std::SystemResult::Ok(cosmwasm_std::ContractResult::Ok(cosmwasm_std::to_json_binary(&info).unwrap()))
            }
            _ => cosmwasm_std::SystemResult::Err(cosmwasm_std::SystemError::UnsupportedRequest { kind: "only ContractInfo is answered".into() }),
        });
        World {
            store: MemStorage::default(),
            api: CachedApi::default(),
            querier,
            block: BlockInfo {
                height,
                time: Timestamp::from_seconds(time_s),
                chain_id: "cwv-chain".into(),
            },
            contract: MockApi::default().addr_make("contract-under-test"),
        }
    }

    pub fn env(&self) -> Env {
        Env {
            block: self.block.clone(),
            transaction: Some(TransactionInfo { index: 0 }),
            contract: ContractInfo {
                address: self.contract.clone(),
            },
        }
    }

    pub fn advance(&mut self, blocks: u64, secs: u64) {
        self.block.height = self.block.height.saturating_add(blocks);
        self.block.time = Timestamp::from_nanos(
            self.block
                .time
                .nanos()
                .saturating_add(secs.saturating_mul(1_000_000_000)),
        );
    }

    pub fn deps(&self) -> Deps<'_, Empty> {
        Deps {
            storage: &self.store,
            api: &self.api,
            querier: QuerierWrapper::new(&self.querier),
        }
    }

    /// Run a state-changing call as a transaction: roll back on Err and on panic.
    pub fn tx<T, E: std::fmt::Display>(
        &mut self,
        f: impl FnOnce(DepsMut<'_, Empty>, Env) -> Result<T, E>,
    ) -> Res<T> {
        let snapshot = self.store.clone();
        let env = self.env();
        let r = {
            let store = &mut self.store;
            let api = &self.api;
            let querier = &self.querier;
            catch_unwind(AssertUnwindSafe(move || {
                let deps = DepsMut {
                    storage: store,
                    api,
                    querier: QuerierWrapper::new(querier),
                };
                f(deps, env)
            }))
        };
        match r {
            Ok(Ok(t)) => Res::Ok(t),
            Ok(Err(e)) => {
                self.store = snapshot;
                Res::Err(e.to_string())
            }
            Err(_) => {
                self.store = snapshot;
                Res::Abort(last_panic())
            }
        }
    }

    /// Run a query; a panic inside a query is reported as Abort.
    pub fn q<T, E: std::fmt::Display>(
        &self,
        f: impl FnOnce(Deps<'_, Empty>, Env) -> Result<T, E>,
    ) -> Res<T> {
        let env = self.env();
        let deps = self.deps();
        match catch_unwind(AssertUnwindSafe(move || f(deps, env))) {
            Ok(Ok(t)) => Res::Ok(t),
            Ok(Err(e)) => Res::Err(e.to_string()),
            Err(_) => Res::Abort(last_panic()),
        }
    }
}

pub fn info(sender: &str) -> MessageInfo {
    MessageInfo {
        sender: Addr::unchecked(sender),
        funds: vec![],
    }
}


// ---------------------------------------------------------------------------------------------
// A querier that routes smart and raw wasm queries to the contract under test, so that the client-side helpers
// the repository ships in packages/ (Cw20Contract, Cw4Contract, ...) can be used as additional observers.

pub struct Router<'a> {
    pub w: &'a World,
    /// the contract's `query` entry point applied to the raw JSON message
    pub smart: fn(Deps<'_, Empty>, Env, &cosmwasm_std::Binary) -> StdResult<cosmwasm_std::Binary>,
}

impl<'a> cosmwasm_std::Querier for Router<'a> {
    fn raw_query(&self, bin_request: &[u8]) -> cosmwasm_std::QuerierResult {
        use cosmwasm_std::{ContractResult, QueryRequest, SystemError, SystemResult, WasmQuery};
        let req: QueryRequest<Empty> = match cosmwasm_std::from_json(bin_request) {
            Ok(r) => r,
            Err(e) => return SystemResult::Err(SystemError::InvalidRequest { error: e.to_string(), request: bin_request.into() }),
        };
        match req {
            QueryRequest::Wasm(WasmQuery::Smart { msg, .. }) => {
                let smart = self.smart;
                let (deps, env) = (self.w.deps(), self.w.env());
                match catch_unwind(AssertUnwindSafe(move || smart(deps, env, &msg))) {
                    Ok(Ok(b)) => SystemResult::Ok(ContractResult::Ok(b)),
                    Ok(Err(e)) => SystemResult::Ok(ContractResult::Err(e.to_string())),
                    Err(_) => SystemResult::Ok(ContractResult::Err("query aborted".into())),
                }
            }
            QueryRequest::Wasm(WasmQuery::Raw { key, .. }) => {
                SystemResult::Ok(ContractResult::Ok(cosmwasm_std::Binary::from(self.w.store.data.get(key.as_slice()).cloned().unwrap_or_default())))
            }
            _ => SystemResult::Err(SystemError::UnsupportedRequest { kind: "only wasm smart/raw queries are routed".into() }),
        }
    }
}

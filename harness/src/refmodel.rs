//! Independent reference models written from the property texts / spec documents.
//! Plain integer arithmetic only; nothing here calls the code under test.

/// 10^18: one whole in cosmwasm Decimal atomics
pub const ONE: u128 = 1_000_000_000_000_000_000;

#[derive(Clone, Copy, Debug, PartialEq, Eq, Hash)]
pub enum Rule {
    /// fixed Yes weight
    Count(u64),
    /// share (atomics, 18 decimals) of (total - abstain)
    Pct(u128),
    /// (threshold, quorum) in atomics
    Quorum(u128, u128),
}

#[derive(Clone, Copy, Debug, PartialEq, Eq, Hash, Default)]
pub struct Tally {
    pub yes: u64,
    pub no: u64,
    pub abstain: u64,
    pub veto: u64,
}

impl Tally {
    pub fn voted(&self) -> u128 {
        self.yes as u128 + self.no as u128 + self.abstain as u128 + self.veto as u128
    }
}

/// y >= ceil(base * p)  <=>  y * 10^18 >= base * p   (exact, no rounding)
pub fn meets(y: u128, base: u128, p: u128) -> bool {
    y * ONE >= base * p
}

/// The documented outcome once voting has ended (expired): exact arithmetic, required Yes
/// weight rounded up, never passed without Yes weight.
pub fn pass_final(rule: Rule, total: u64, t: Tally) -> bool {
    let (y, n, a, v) = (t.yes as u128, t.no as u128, t.abstain as u128, t.veto as u128);
    let tt = total as u128;
    match rule {
        Rule::Count(w) => t.yes >= w && t.yes > 0,
        Rule::Pct(p) => y > 0 && meets(y, tt - a.min(tt), p),
        Rule::Quorum(p, q) => meets(y + n + a + v, tt, q) && y > 0 && meets(y, y + n + v, p),
    }
}

/// Before expiry: passed only if EVERY completion of the outstanding votes still passes.
/// Closed form (cross-checked by brute force for small outstanding weight in the monitors).
pub fn pass_now(rule: Rule, total: u64, t: Tally) -> bool {
    let (y, a) = (t.yes as u128, t.abstain as u128);
    let tt = total as u128;
    match rule {
        Rule::Count(w) => t.yes >= w && t.yes > 0,
        // worst case: everyone else votes No -> base stays total - abstain
        Rule::Pct(p) => y > 0 && meets(y, tt - a.min(tt), p),
        // worst case for the quorum: nobody else votes; for the ratio: everyone else votes No
        Rule::Quorum(p, q) => meets(t.voted(), tt, q) && y > 0 && meets(y, tt - a.min(tt), p),
    }
}

/// Before expiry: can some completion of the outstanding votes still pass?
/// Best case: all outstanding weight votes Yes (abstaining instead never helps since p <= 1).
pub fn can_still_pass(rule: Rule, total: u64, t: Tally) -> bool {
    let voted = t.voted();
    let tt = total as u128;
    let r = tt.saturating_sub(voted);
    let best = Tally {
        yes: (t.yes as u128 + r).min(u64::MAX as u128) as u64,
        ..t
    };
    pass_final(rule, total, best)
}

/// brute force over all completions: returns (all_pass, some_pass). Only for small r.
pub fn brute(rule: Rule, total: u64, t: Tally) -> (bool, bool) {
    let r = (total as u128).saturating_sub(t.voted()) as u64;
    let mut all = true;
    let mut some = false;
    for dy in 0..=r {
        for dn in 0..=(r - dy) {
            for da in 0..=(r - dy - dn) {
                for dv in 0..=(r - dy - dn - da) {
                    let c = Tally {
                        yes: t.yes + dy,
                        no: t.no + dn,
                        abstain: t.abstain + da,
                        veto: t.veto + dv,
                    };
                    let p = pass_final(rule, total, c);
                    all &= p;
                    some |= p;
                }
            }
        }
    }
    (all, some)
}

/// number of significant decimals of an 18-decimal atomics value
pub fn decimals(atomics: u128) -> u32 {
    let mut d = 18;
    let mut x = atomics;
    while d > 0 && x % 10 == 0 {
        x /= 10;
        d -= 1;
    }
    d
}

pub fn rule_exact(rule: Rule) -> bool {
    match rule {
        Rule::Count(_) => true,
        Rule::Pct(p) => decimals(p) <= 9,
        Rule::Quorum(p, q) => decimals(p) <= 9 && decimals(q) <= 9,
    }
}

pub fn rule_kind(rule: Rule) -> &'static str {
    match rule {
        Rule::Count(_) => "count",
        Rule::Pct(_) => "percentage",
        Rule::Quorum(..) => "quorum",
    }
}

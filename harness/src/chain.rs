//! AppDriver: a cw-multi-test App hosting the real contracts, plus harness-side recorder
//! modules (bank wrapper with fault switch, IBC packet recorder), a sink contract, a flaky
//! cw20 wrapper and the IBC shim that forwards to the real `ibc_*` entry points.
//! Nothing in here changes contract logic: wrappers only forward, log and inject faults.

use crate::direct::{install_panic_hook, last_panic, CachedApi, MemStorage, Res};
use anyhow::Result as AnyResult;
use cosmwasm_schema::cw_serde;
use cosmwasm_std::{
    coin, to_json_binary, to_json_string, Addr, Api, BankMsg, BankQuery, Binary, BlockInfo, Coin,
    CosmosMsg, CustomMsg, CustomQuery, Deps, DepsMut, Empty, Env, IbcAcknowledgement, IbcChannel,
    IbcChannelConnectMsg, IbcChannelOpenMsg, IbcEndpoint, IbcMsg, IbcOrder, IbcPacket,
    IbcPacketAckMsg, IbcPacketReceiveMsg, IbcPacketTimeoutMsg, IbcQuery, IbcTimeout, MessageInfo,
    Order, PortIdResponse, Querier, ReplyOn, Response, StdError, StdResult, Storage, SubMsg,
    Timestamp, Uint128, WasmMsg,
};
use cw_multi_test::{
    App, AppBuilder, AppResponse, Bank, BankKeeper, BankSudo, Contract, ContractWrapper,
    CosmosRouter, DistributionKeeper, Executor, FailingModule, GovFailingModule, Ibc, Module,
    StakeKeeper, StargateFailingModule, SudoMsg, WasmKeeper,
};
use cw_storage_plus::{Item, Map};
use serde::de::DeserializeOwned;
use serde::Serialize;
use std::cell::RefCell;
use std::panic::{catch_unwind, AssertUnwindSafe};

pub type TestApp = App<
    BankWrap,
    CachedApi,
    MemStorage,
    FailingModule<Empty, Empty, Empty>,
    WasmKeeper<Empty, Empty>,
    StakeKeeper,
    DistributionKeeper,
    IbcRecorder,
    GovFailingModule,
    StargateFailingModule,
>;

// ---------------------------------------------------------------------------------------------
// bank wrapper: BankKeeper + recipient validation + fail switch (fault injection)

const BANK_FAIL_KEY: &[u8] = b"\x00cwv_bank_fail";

pub struct BankWrap {
    inner: BankKeeper,
}

impl Bank for BankWrap {}

impl Module for BankWrap {
    type ExecT = BankMsg;
    type QueryT = BankQuery;
    type SudoT = BankSudo;

    fn execute<ExecC, QueryC>(
        &self,
        api: &dyn Api,
        storage: &mut dyn Storage,
        router: &dyn CosmosRouter<ExecC = ExecC, QueryC = QueryC>,
        block: &BlockInfo,
        sender: Addr,
        msg: BankMsg,
    ) -> AnyResult<AppResponse>
    where
        ExecC: CustomMsg + DeserializeOwned + 'static,
        QueryC: CustomQuery + DeserializeOwned + 'static,
    {
        if storage.get(BANK_FAIL_KEY).is_some() {
            anyhow::bail!("injected bank failure");
        }
        if let BankMsg::Send { to_address, .. } = &msg {
            // the real bank module rejects malformed recipient addresses
            api.addr_validate(to_address)?;
        }
        self.inner.execute(api, storage, router, block, sender, msg)
    }

    fn query(
        &self,
        api: &dyn Api,
        storage: &dyn Storage,
        querier: &dyn Querier,
        block: &BlockInfo,
        request: BankQuery,
    ) -> AnyResult<Binary> {
        self.inner.query(api, storage, querier, block, request)
    }

    fn sudo<ExecC, QueryC>(
        &self,
        api: &dyn Api,
        storage: &mut dyn Storage,
        router: &dyn CosmosRouter<ExecC = ExecC, QueryC = QueryC>,
        block: &BlockInfo,
        msg: BankSudo,
    ) -> AnyResult<AppResponse>
    where
        ExecC: CustomMsg + DeserializeOwned + 'static,
        QueryC: CustomQuery + DeserializeOwned + 'static,
    {
        self.inner.sudo(api, storage, router, block, msg)
    }
}

// ---------------------------------------------------------------------------------------------
// IBC recorder: accepts SendPacket and logs it in chain storage (so the log rolls back with
// the transaction and the committed log is exactly what took effect)

const IBC_COUNT: Item<u64> = Item::new("\x00cwv_ibc_count");
const IBC_LOG: Map<u64, PacketRec> = Map::new("\x00cwv_ibc_log");

#[cw_serde]
pub struct PacketRec {
    pub seq: u64,
    pub sender: String,
    pub channel_id: String,
    pub data: Binary,
    /// nanoseconds, 0 when no timestamp timeout was given
    pub timeout_ns: u64,
    pub has_block_timeout: bool,
}

pub struct IbcRecorder;

impl Ibc for IbcRecorder {}

impl Module for IbcRecorder {
    type ExecT = IbcMsg;
    type QueryT = IbcQuery;
    type SudoT = Empty;

    fn execute<ExecC, QueryC>(
        &self,
        _api: &dyn Api,
        storage: &mut dyn Storage,
        _router: &dyn CosmosRouter<ExecC = ExecC, QueryC = QueryC>,
        _block: &BlockInfo,
        sender: Addr,
        msg: IbcMsg,
    ) -> AnyResult<AppResponse>
    where
        ExecC: CustomMsg + DeserializeOwned + 'static,
        QueryC: CustomQuery + DeserializeOwned + 'static,
    {
        match msg {
            IbcMsg::SendPacket {
                channel_id,
                data,
                timeout,
            } => {
                let n = IBC_COUNT.may_load(storage)?.unwrap_or(0) + 1;
                IBC_COUNT.save(storage, &n)?;
                IBC_LOG.save(
                    storage,
                    n,
                    &PacketRec {
                        seq: n,
                        sender: sender.to_string(),
                        channel_id,
                        data,
                        timeout_ns: timeout.timestamp().map(|t| t.nanos()).unwrap_or(0),
                        has_block_timeout: timeout.block().is_some(),
                    },
                )?;
                Ok(AppResponse::default())
            }
            other => anyhow::bail!("ibc recorder: unsupported message {other:?}"),
        }
    }

    fn query(
        &self,
        _api: &dyn Api,
        _storage: &dyn Storage,
        _querier: &dyn Querier,
        _block: &BlockInfo,
        request: IbcQuery,
    ) -> AnyResult<Binary> {
        match request {
            IbcQuery::PortId {} => Ok(to_json_binary(&PortIdResponse::new("wasm.cwv-port".to_string()))?),
            other => anyhow::bail!("ibc recorder: unsupported query {other:?}"),
        }
    }

    fn sudo<ExecC, QueryC>(
        &self,
        _api: &dyn Api,
        _storage: &mut dyn Storage,
        _router: &dyn CosmosRouter<ExecC = ExecC, QueryC = QueryC>,
        _block: &BlockInfo,
        _msg: Empty,
    ) -> AnyResult<AppResponse>
    where
        ExecC: CustomMsg + DeserializeOwned + 'static,
        QueryC: CustomQuery + DeserializeOwned + 'static,
    {
        Ok(AppResponse::default())
    }
}

// ---------------------------------------------------------------------------------------------
// sink contract: records every delivery in its own storage; fails on demand

#[cw_serde]
pub enum SinkExec {
    /// cw20 Send / SendFrom notification
    Receive(cw20::Cw20ReceiveMsg),
    /// cw4 hook notification
    MemberChangedHook(cw4::MemberChangedHookMsg),
    /// proposal message payload with a unique id
    Ping { id: String },
}

#[cw_serde]
pub enum SinkSudo {
    SetFail(bool),
}

#[cw_serde]
pub enum SinkQuery {
    Log { from: u64 },
    Count {},
}

#[cw_serde]
pub struct SinkEntry {
    pub n: u64,
    pub sender: String,
    pub payload: String,
    pub funds: Vec<Coin>,
}

const SINK_COUNT: Item<u64> = Item::new("count");
const SINK_LOG: Map<u64, SinkEntry> = Map::new("log");
const SINK_FAIL: Item<bool> = Item::new("fail");

fn sink_instantiate(_d: DepsMut, _e: Env, _i: MessageInfo, _m: Empty) -> StdResult<Response> {
    Ok(Response::new())
}
fn sink_execute(d: DepsMut, _e: Env, i: MessageInfo, m: SinkExec) -> StdResult<Response> {
    if SINK_FAIL.may_load(d.storage)?.unwrap_or(false) {
        return Err(StdError::generic_err("injected sink failure"));
    }
    let n = SINK_COUNT.may_load(d.storage)?.unwrap_or(0) + 1;
    SINK_COUNT.save(d.storage, &n)?;
    SINK_LOG.save(
        d.storage,
        n,
        &SinkEntry {
            n,
            sender: i.sender.to_string(),
            payload: to_json_string(&m)?,
            funds: i.funds,
        },
    )?;
    Ok(Response::new())
}
fn sink_query(d: Deps, _e: Env, m: SinkQuery) -> StdResult<Binary> {
    match m {
        SinkQuery::Count {} => to_json_binary(&SINK_COUNT.may_load(d.storage)?.unwrap_or(0)),
        SinkQuery::Log { from } => {
            let v: Vec<SinkEntry> = SINK_LOG
                .range(d.storage, Some(cw_storage_plus::Bound::exclusive(from)), None, Order::Ascending)
                .map(|r| r.map(|x| x.1))
                .collect::<StdResult<_>>()?;
            to_json_binary(&v)
        }
    }
}
fn sink_sudo(d: DepsMut, _e: Env, m: SinkSudo) -> StdResult<Response> {
    match m {
        SinkSudo::SetFail(b) => SINK_FAIL.save(d.storage, &b)?,
    }
    Ok(Response::new())
}

// ---------------------------------------------------------------------------------------------
// flaky cw20: the real cw20-base entry points; execute fails while the injected flag is set

#[cw_serde]
pub enum FlakySudo {
    SetFail(bool),
}
const FLAKY_KEY: &[u8] = b"\x00cwv_flaky_fail";

fn flaky_execute(
    d: DepsMut,
    e: Env,
    i: MessageInfo,
    m: cw20::Cw20ExecuteMsg,
) -> Result<Response, cw20_base::ContractError> {
    if d.storage.get(FLAKY_KEY).is_some() {
        return Err(StdError::generic_err("injected cw20 failure").into());
    }
    cw20_base::contract::execute(d, e, i, m)
}
fn flaky_sudo(d: DepsMut, _e: Env, m: FlakySudo) -> StdResult<Response> {
    match m {
        FlakySudo::SetFail(true) => d.storage.set(FLAKY_KEY, b"1"),
        FlakySudo::SetFail(false) => d.storage.remove(FLAKY_KEY),
    }
    Ok(Response::new())
}

// ---------------------------------------------------------------------------------------------
// IBC shim for cw20-ics20 (registered as the contract's `sudo`)

#[cw_serde]
pub struct Ends {
    pub src_port: String,
    pub src_channel: String,
    pub dest_port: String,
    pub dest_channel: String,
}

#[cw_serde]
pub enum ShimMsg {
    ChannelConnect {
        channel_id: String,
        port: String,
        counterparty_port: String,
        counterparty_channel: String,
        version: String,
        ordered: bool,
    },
    Receive { data: Binary, ends: Ends, sequence: u64 },
    Ack { ack: Binary, data: Binary, ends: Ends, sequence: u64 },
    Timeout { data: Binary, ends: Ends, sequence: u64 },
    /// rewrite the storage into the pre-allow-list layout (contract versions 0.11.1 ..= 0.12.0-alpha1)
    MakeV1 { version: String },
    /// rewrite the storage into the v2 layout (versions <= 0.13.0): balances only count acked sends
    MakeV2 { version: String, inflight: Vec<(String, String, Uint128)> },
    RawSet { key: Binary, value: Binary },
    RawRemove { key: Binary },
}

/// one payout / refund sub-message as emitted by an ibc entry point
#[derive(Clone, Debug)]
pub struct SubLog {
    pub reply_on: ReplyOn,
    pub gas_limit: Option<u64>,
    pub id: u64,
    pub msg: CosmosMsg,
}

thread_local! {
    pub static SHIM_LOG: RefCell<Vec<SubLog>> = RefCell::new(vec![]);
}

pub fn take_shim_log() -> Vec<SubLog> {
    SHIM_LOG.with(|l| std::mem::take(&mut *l.borrow_mut()))
}

fn log_subs(msgs: &[SubMsg]) {
    SHIM_LOG.with(|l| {
        let mut l = l.borrow_mut();
        for m in msgs {
            l.push(SubLog {
                reply_on: m.reply_on.clone(),
                gas_limit: m.gas_limit,
                id: m.id,
                msg: m.msg.clone(),
            });
        }
    });
}

fn packet(data: Binary, ends: &Ends, sequence: u64) -> IbcPacket {
    IbcPacket::new(
        data,
        IbcEndpoint {
            port_id: ends.src_port.clone(),
            channel_id: ends.src_channel.clone(),
        },
        IbcEndpoint {
            port_id: ends.dest_port.clone(),
            channel_id: ends.dest_channel.clone(),
        },
        sequence,
        IbcTimeout::with_timestamp(Timestamp::from_seconds(4_000_000_000)),
    )
}

#[cw_serde]
struct V1Config {
    pub default_timeout: u64,
    pub gov_contract: Addr,
}

fn ics20_shim(mut deps: DepsMut, env: Env, msg: ShimMsg) -> AnyResult<Response> {
    use cw20_ics20::ibc;
    let relayer = Addr::unchecked("relayer");
    let err = |e: cw20_ics20::ContractError| anyhow::Error::msg(e.to_string());
    match msg {
        ShimMsg::ChannelConnect {
            channel_id,
            port,
            counterparty_port,
            counterparty_channel,
            version,
            ordered,
        } => {
            let ch = IbcChannel::new(
                IbcEndpoint {
                    port_id: port,
                    channel_id,
                },
                IbcEndpoint {
                    port_id: counterparty_port,
                    channel_id: counterparty_channel,
                },
                if ordered { IbcOrder::Ordered } else { IbcOrder::Unordered },
                version.clone(),
                "connection-0",
            );
            ibc::ibc_channel_open(deps.branch(), env.clone(), IbcChannelOpenMsg::new_init(ch.clone())).map_err(err)?;
            let r = ibc::ibc_channel_connect(deps, env, IbcChannelConnectMsg::new_ack(ch, version)).map_err(err)?;
            log_subs(&r.messages);
            Ok(Response::new().add_submessages(r.messages).add_attributes(r.attributes))
        }
        ShimMsg::Receive { data, ends, sequence } => {
            let p = packet(data, &ends, sequence);
            // Result<_, Never>: cannot be Err
            let r = match ibc::ibc_packet_receive(deps, env, IbcPacketReceiveMsg::new(p, relayer)) {
                Ok(r) => r,
                Err(never) => match never {},
            };
            log_subs(&r.messages);
            let mut resp = Response::new().add_submessages(r.messages).add_attributes(r.attributes);
            if let Some(ack) = r.acknowledgement {
                resp = resp.set_data(ack);
            }
            Ok(resp)
        }
        ShimMsg::Ack { ack, data, ends, sequence } => {
            let p = packet(data, &ends, sequence);
            let r = ibc::ibc_packet_ack(deps, env, IbcPacketAckMsg::new(IbcAcknowledgement::new(ack), p, relayer)).map_err(err)?;
            log_subs(&r.messages);
            Ok(Response::new().add_submessages(r.messages).add_attributes(r.attributes))
        }
        ShimMsg::Timeout { data, ends, sequence } => {
            let p = packet(data, &ends, sequence);
            let r = ibc::ibc_packet_timeout(deps, env, IbcPacketTimeoutMsg::new(p, relayer)).map_err(err)?;
            log_subs(&r.messages);
            Ok(Response::new().add_submessages(r.messages).add_attributes(r.attributes))
        }
        ShimMsg::MakeV1 { version } => {
            use cw20_ics20::state::{ADMIN, ALLOW_LIST, CONFIG};
            let cfg = CONFIG.load(deps.storage)?;
            let gov = ADMIN.get(deps.as_ref())?.ok_or_else(|| anyhow::Error::msg("no admin"))?;
            let v1: Item<V1Config> = Item::new("ics20_config");
            v1.save(
                deps.storage,
                &V1Config {
                    default_timeout: cfg.default_timeout,
                    gov_contract: gov,
                },
            )?;
            deps.storage.remove(b"admin");
            let keys: Vec<Addr> = ALLOW_LIST
                .keys(deps.storage, None, None, Order::Ascending)
                .collect::<StdResult<_>>()?;
            for k in keys {
                ALLOW_LIST.remove(deps.storage, &k);
            }
            cw2::set_contract_version(deps.storage, "crates.io:cw20-ics20", version)?;
            Ok(Response::new())
        }
        ShimMsg::MakeV2 { version, inflight } => {
            use cw20_ics20::state::CHANNEL_STATE;
            for (ch, denom, amt) in inflight {
                let mut st = CHANNEL_STATE.load(deps.storage, (&ch, &denom))?;
                st.outstanding = st.outstanding.checked_sub(amt)?;
                st.total_sent = st.total_sent.checked_sub(amt)?;
                if st.total_sent.is_zero() {
                    // in the v2 layout the entry only appeared with the first successful ack
                    CHANNEL_STATE.remove(deps.storage, (&ch, &denom));
                } else {
                    CHANNEL_STATE.save(deps.storage, (&ch, &denom), &st)?;
                }
            }
            cw2::set_contract_version(deps.storage, "crates.io:cw20-ics20", version)?;
            Ok(Response::new())
        }
        ShimMsg::RawSet { key, value } => {
            deps.storage.set(key.as_slice(), value.as_slice());
            Ok(Response::new())
        }
        ShimMsg::RawRemove { key } => {
            deps.storage.remove(key.as_slice());
            Ok(Response::new())
        }
    }
}

// ---------------------------------------------------------------------------------------------
// contract boxes

/// storage surgery used to synthesise legacy layouts before a real `migrate`
#[cw_serde]
pub enum RawSudo {
    Set { key: Binary, value: Binary },
    Remove { key: Binary },
    SetVersion { contract: String, version: String },
}
fn raw_sudo(d: DepsMut, _e: Env, m: RawSudo) -> StdResult<Response> {
    match m {
        RawSudo::Set { key, value } => d.storage.set(key.as_slice(), value.as_slice()),
        RawSudo::Remove { key } => d.storage.remove(key.as_slice()),
        RawSudo::SetVersion { contract, version } => {
            cw2::set_contract_version(d.storage, contract, version)?;
        }
    }
    Ok(Response::new())
}

pub fn c_cw20() -> Box<dyn Contract<Empty>> {
    Box::new(
        ContractWrapper::new(
            cw20_base::contract::execute,
            cw20_base::contract::instantiate,
            cw20_base::contract::query,
        )
        .with_migrate(cw20_base::contract::migrate)
        .with_sudo(raw_sudo),
    )
}
pub fn c_cw20_flaky() -> Box<dyn Contract<Empty>> {
    Box::new(
        ContractWrapper::new(flaky_execute, cw20_base::contract::instantiate, cw20_base::contract::query)
            .with_sudo(flaky_sudo),
    )
}
pub fn c_group() -> Box<dyn Contract<Empty>> {
    Box::new(ContractWrapper::new(
        cw4_group::contract::execute,
        cw4_group::contract::instantiate,
        cw4_group::contract::query,
    ))
}
/// a cw4 group that keeps no history: every query for a past height is answered with an error
/// (a custom / migrated cw4 implementation). A multisig built on it has no snapshot to vote against.
fn group_nohist_query(deps: Deps, env: Env, msg: cw4_group::msg::QueryMsg) -> StdResult<Binary> {
    use cw4_group::msg::QueryMsg as Q;
    match &msg {
        Q::Member { at_height: Some(_), .. } | Q::TotalWeight { at_height: Some(_) } => Err(cosmwasm_std::StdError::generic_err("this group keeps no history")),
        _ => cw4_group::contract::query(deps, env, msg),
    }
}
pub fn c_group_nohist() -> Box<dyn Contract<Empty>> {
    Box::new(ContractWrapper::new(cw4_group::contract::execute, cw4_group::contract::instantiate, group_nohist_query))
}
pub fn c_stake() -> Box<dyn Contract<Empty>> {
    Box::new(ContractWrapper::new(
        cw4_stake::contract::execute,
        cw4_stake::contract::instantiate,
        cw4_stake::contract::query,
    ))
}
// Call budget: a stand-in for the gas limit. Sub-messages are dispatched by the simulator after
// the contract function has returned, so unbounded re-entrancy shows up as unbounded recursion
// inside the simulator (native stack overflow) instead of a failed transaction. Every guarded
// contract call draws on a per-transaction budget that the driver resets at each top-level call.
thread_local! {
    static CALLS: std::cell::Cell<u32> = std::cell::Cell::new(0);
}
/// multisig calls allowed inside one top-level transaction
const MAX_CALLS: u32 = 64;

pub fn reset_call_budget() {
    CALLS.with(|c| c.set(0));
}

fn with_depth<T, E: From<StdError>>(f: impl FnOnce() -> Result<T, E>) -> Result<T, E> {
    let calls = CALLS.with(|c| {
        c.set(c.get() + 1);
        c.get()
    });
    if calls > MAX_CALLS {
        return Err(StdError::generic_err("out of gas: call budget of the transaction exhausted (harness gas stand-in)").into());
    }
    f()
}

fn fixed_execute(
    d: DepsMut,
    e: Env,
    i: MessageInfo,
    m: cw3_fixed_multisig::msg::ExecuteMsg,
) -> Result<Response, cw3_fixed_multisig::ContractError> {
    with_depth(|| cw3_fixed_multisig::contract::execute(d, e, i, m))
}
fn flex_execute(
    d: DepsMut,
    e: Env,
    i: MessageInfo,
    m: cw3_flex_multisig::msg::ExecuteMsg,
) -> Result<Response, cw3_flex_multisig::ContractError> {
    with_depth(|| cw3_flex_multisig::contract::execute(d, e, i, m))
}

pub fn c_fixed() -> Box<dyn Contract<Empty>> {
    Box::new(ContractWrapper::new(
        fixed_execute,
        cw3_fixed_multisig::contract::instantiate,
        cw3_fixed_multisig::contract::query,
    ))
}
pub fn c_flex() -> Box<dyn Contract<Empty>> {
    Box::new(ContractWrapper::new(
        flex_execute,
        cw3_flex_multisig::contract::instantiate,
        cw3_flex_multisig::contract::query,
    ))
}
pub fn c_ics20() -> Box<dyn Contract<Empty>> {
    Box::new(
        ContractWrapper::new(
            cw20_ics20::contract::execute,
            cw20_ics20::contract::instantiate,
            cw20_ics20::contract::query,
        )
        .with_reply(cw20_ics20::ibc::reply)
        .with_migrate(cw20_ics20::contract::migrate)
        .with_sudo(ics20_shim),
    )
}
pub fn c_subkeys() -> Box<dyn Contract<Empty>> {
    Box::new(ContractWrapper::new(
        cw1_subkeys::contract::execute,
        cw1_subkeys::contract::instantiate,
        cw1_subkeys::contract::query,
    ))
}
pub fn c_sink() -> Box<dyn Contract<Empty>> {
    Box::new(ContractWrapper::new(sink_execute, sink_instantiate, sink_query).with_sudo(sink_sudo))
}

// ---------------------------------------------------------------------------------------------
// the driver

pub struct Codes {
    pub cw20: u64,
    pub cw20_flaky: u64,
    pub group: u64,
    pub group_nohist: u64,
    pub stake: u64,
    pub fixed: u64,
    pub flex: u64,
    pub ics20: u64,
    pub sink: u64,
    pub subkeys: u64,
}

pub struct Chain {
    pub app: TestApp,
    pub codes: Codes,
    pub owner: Addr,
}

pub fn guarded<T>(f: impl FnOnce() -> AnyResult<T>) -> Res<T> {
    reset_call_budget();
    match catch_unwind(AssertUnwindSafe(f)) {
        Ok(Ok(t)) => Res::Ok(t),
        Ok(Err(e)) => Res::Err(format!("{:#}", e)),
        Err(_) => Res::Abort(last_panic()),
    }
}

impl Chain {
    pub fn new(height: u64, time_s: u64) -> Chain {
        install_panic_hook();
        let block = BlockInfo {
            height,
            time: Timestamp::from_seconds(time_s),
            chain_id: "cwv-chain".into(),
        };
        let mut app: TestApp = AppBuilder::new()
            .with_api(CachedApi::default())
            .with_storage(MemStorage::default())
            .with_bank(BankWrap {
                inner: BankKeeper::new(),
            })
            .with_ibc(IbcRecorder)
            .with_block(block)
            .build(|_, _, _| {});
        let codes = Codes {
            cw20: app.store_code(c_cw20()),
            cw20_flaky: app.store_code(c_cw20_flaky()),
            group: app.store_code(c_group()),
            group_nohist: app.store_code(c_group_nohist()),
            stake: app.store_code(c_stake()),
            fixed: app.store_code(c_fixed()),
            flex: app.store_code(c_flex()),
            ics20: app.store_code(c_ics20()),
            sink: app.store_code(c_sink()),
            subkeys: app.store_code(c_subkeys()),
        };
        Chain {
            app,
            codes,
            owner: Addr::unchecked(crate::direct::mk_addr("chain-owner")),
        }
    }

    pub fn block(&self) -> BlockInfo {
        self.app.block_info()
    }
    pub fn height(&self) -> u64 {
        self.app.block_info().height
    }
    pub fn time_ns(&self) -> u64 {
        self.app.block_info().time.nanos()
    }
    pub fn advance(&mut self, blocks: u64, secs: u64) {
        self.app.update_block(|b| {
            b.height = b.height.saturating_add(blocks);
            b.time = Timestamp::from_nanos(b.time.nanos().saturating_add(secs.saturating_mul(1_000_000_000)));
        });
    }
    pub fn set_time_ns(&mut self, ns: u64, blocks: u64) {
        self.app.update_block(|b| {
            b.height = b.height.saturating_add(blocks);
            b.time = Timestamp::from_nanos(ns);
        });
    }

    pub fn fund(&mut self, addr: &str, amount: u128, denom: &str) {
        let _ = self.app.sudo(SudoMsg::Bank(BankSudo::Mint {
            to_address: addr.to_string(),
            amount: vec![coin(amount, denom)],
        }));
    }
    pub fn bank(&self, addr: &str, denom: &str) -> u128 {
        self.app
            .wrap()
            .query_balance(addr, denom)
            .map(|c| c.amount.u128())
            .unwrap_or(0)
    }
    pub fn set_bank_fail(&mut self, on: bool) {
        if on {
            self.app.storage_mut().set(BANK_FAIL_KEY, b"1");
        } else {
            self.app.storage_mut().remove(BANK_FAIL_KEY);
        }
    }

    pub fn instantiate<T: Serialize>(&mut self, code: u64, sender: &str, msg: &T, label: &str, admin: Option<String>) -> Res<Addr> {
        let app = &mut self.app;
        guarded(|| app.instantiate_contract(code, Addr::unchecked(sender), msg, &[], label, admin))
    }
    pub fn exec<T: Serialize + std::fmt::Debug>(&mut self, sender: &str, contract: &Addr, msg: &T, funds: &[Coin]) -> Res<AppResponse> {
        let app = &mut self.app;
        guarded(|| app.execute_contract(Addr::unchecked(sender), contract.clone(), msg, funds))
    }
    pub fn exec_cosmos(&mut self, sender: &str, msg: CosmosMsg) -> Res<AppResponse> {
        let app = &mut self.app;
        guarded(|| app.execute(Addr::unchecked(sender), msg))
    }
    pub fn sudo<T: Serialize>(&mut self, contract: &Addr, msg: &T) -> Res<AppResponse> {
        let app = &mut self.app;
        guarded(|| app.wasm_sudo(contract.clone(), msg))
    }
    pub fn migrate<T: Serialize>(&mut self, sender: &str, contract: &Addr, msg: &T, code: u64) -> Res<AppResponse> {
        let app = &mut self.app;
        guarded(|| app.migrate_contract(Addr::unchecked(sender), contract.clone(), msg, code))
    }
    pub fn query<R: DeserializeOwned, Q: Serialize>(&self, contract: &Addr, msg: &Q) -> Res<R> {
        let app = &self.app;
        match catch_unwind(AssertUnwindSafe(|| app.wrap().query_wasm_smart::<R>(contract, msg))) {
            Ok(Ok(r)) => Res::Ok(r),
            Ok(Err(e)) => Res::Err(e.to_string()),
            Err(_) => Res::Abort(last_panic()),
        }
    }
    pub fn raw(&self, contract: &Addr, key: &[u8]) -> Option<Vec<u8>> {
        self.app.wrap().query_wasm_raw(contract, key.to_vec()).ok().flatten()
    }
    pub fn dump(&self, contract: &Addr) -> Vec<(Vec<u8>, Vec<u8>)> {
        self.app.dump_wasm_raw(contract)
    }

    /// committed IBC packets with sequence > from
    pub fn packets(&self, from: u64) -> Vec<PacketRec> {
        IBC_LOG
            .range(self.app.storage(), Some(cw_storage_plus::Bound::exclusive(from)), None, Order::Ascending)
            .filter_map(|r| r.ok().map(|x| x.1))
            .collect()
    }
    pub fn packet_count(&self) -> u64 {
        IBC_COUNT.may_load(self.app.storage()).ok().flatten().unwrap_or(0)
    }

    pub fn new_sink(&mut self) -> Addr {
        let owner = self.owner.to_string();
        self.instantiate(self.codes.sink, &owner, &Empty {}, "sink", None).ok().expect("sink")
    }
    pub fn sink_log(&self, sink: &Addr, from: u64) -> Vec<SinkEntry> {
        self.query::<Vec<SinkEntry>, _>(sink, &SinkQuery::Log { from }).ok().unwrap_or_default()
    }
    pub fn sink_count(&self, sink: &Addr) -> u64 {
        self.query::<u64, _>(sink, &SinkQuery::Count {}).ok().unwrap_or(0)
    }
    pub fn sink_fail(&mut self, sink: &Addr, on: bool) {
        let _ = self.sudo(sink, &SinkSudo::SetFail(on));
    }

    pub fn new_cw20(&mut self, flaky: bool, balances: &[(String, u128)], minter: Option<String>) -> Addr {
        let msg = cw20_base::msg::InstantiateMsg {
            name: "Token".into(),
            symbol: "TKN".into(),
            decimals: 6,
            initial_balances: balances
                .iter()
                .map(|(a, x)| cw20::Cw20Coin {
                    address: a.clone(),
                    amount: Uint128::new(*x),
                })
                .collect(),
            mint: minter.map(|m| cw20::MinterResponse { minter: m, cap: None }),
            marketing: None,
        };
        let owner = self.owner.to_string();
        let code = if flaky { self.codes.cw20_flaky } else { self.codes.cw20 };
        self.instantiate(code, &owner, &msg, "cw20", None).ok().expect("cw20")
    }
    /// plain cw20-base with the chain owner as contract admin (so that it can be migrated)
    pub fn new_cw20_admin(&mut self, balances: &[(String, u128)]) -> Addr {
        let msg = cw20_base::msg::InstantiateMsg {
            name: "Token".into(),
            symbol: "TKN".into(),
            decimals: 6,
            initial_balances: balances.iter().map(|(a, x)| cw20::Cw20Coin { address: a.clone(), amount: Uint128::new(*x) }).collect(),
            mint: None,
            marketing: None,
        };
        let owner = self.owner.to_string();
        self.instantiate(self.codes.cw20, &owner, &msg, "cw20", Some(owner.clone())).ok().expect("cw20")
    }
    pub fn cw20_balance(&self, token: &Addr, addr: &str) -> u128 {
        self.query::<cw20::BalanceResponse, _>(token, &cw20::Cw20QueryMsg::Balance { address: addr.to_string() })
            .ok()
            .map(|b| b.balance.u128())
            .unwrap_or(0)
    }
    pub fn flaky_fail(&mut self, token: &Addr, on: bool) {
        let _ = self.sudo(token, &FlakySudo::SetFail(on));
    }
}

/// helper: WasmMsg::Execute as CosmosMsg
pub fn wasm_exec<T: Serialize>(contract: &Addr, msg: &T, funds: Vec<Coin>) -> CosmosMsg {
    WasmMsg::Execute {
        contract_addr: contract.to_string(),
        msg: to_json_binary(msg).unwrap(),
        funds,
    }
    .into()
}

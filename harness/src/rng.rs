//! Small deterministic PRNG (splitmix64 seeding + xoshiro256**). No external crates.
//! Every history derives its own generator from (VERIF_SEED, property, history index), so a
//! history can be regenerated exactly from those three values.

#[derive(Clone, Debug)]
pub struct Rng {
    s: [u64; 4],
}

fn splitmix(x: &mut u64) -> u64 {
    *x = x.wrapping_add(0x9E37_79B9_7F4A_7C15);
    let mut z = *x;
    z = (z ^ (z >> 30)).wrapping_mul(0xBF58_476D_1CE4_E5B9);
    z = (z ^ (z >> 27)).wrapping_mul(0x94D0_49BB_1331_11EB);
    z ^ (z >> 31)
}

pub fn hash_str(s: &str) -> u64 {
    // FNV-1a
    let mut h: u64 = 0xcbf2_9ce4_8422_2325;
    for b in s.bytes() {
        h ^= b as u64;
        h = h.wrapping_mul(0x1000_0000_01b3);
    }
    h
}

impl Rng {
    /// (extra blocks, extra seconds) for a world far in the future: heights beyond 2^32, times beyond 2^32 s.
    /// Decided on a copy of the generator, so the history drawn afterwards is the same as without it.
    pub fn far_future(&self) -> (u64, u64) {
        let mut probe = self.clone();
        match probe.below(14) {
            0 => ((1u64 << 32) + probe.below(1000), 0),
            1 => (0, (1u64 << 32) + probe.below(1000)),
            2 => ((1u64 << 33) + probe.below(1000), (1u64 << 32) + probe.below(1_000_000)),
            _ => (0, 0),
        }
    }
    pub fn new(seed: u64, stream: u64, index: u64) -> Self {
        let mut x = seed
            .wrapping_mul(0xD6E8_FEB8_6659_FD93)
            .wrapping_add(stream.rotate_left(17))
            .wrapping_add(index.wrapping_mul(0xA076_1D64_78BD_642F));
        let s = [
            splitmix(&mut x),
            splitmix(&mut x),
            splitmix(&mut x),
            splitmix(&mut x),
        ];
        Rng { s }
    }

    pub fn next_u64(&mut self) -> u64 {
        let r = self.s[1].wrapping_mul(5).rotate_left(7).wrapping_mul(9);
        let t = self.s[1] << 17;
        self.s[2] ^= self.s[0];
        self.s[3] ^= self.s[1];
        self.s[1] ^= self.s[2];
        self.s[0] ^= self.s[3];
        self.s[2] ^= t;
        self.s[3] = self.s[3].rotate_left(45);
        r
    }

    pub fn next_u128(&mut self) -> u128 {
        ((self.next_u64() as u128) << 64) | self.next_u64() as u128
    }

    /// uniform in 0..n (n > 0)
    pub fn below(&mut self, n: u64) -> u64 {
        debug_assert!(n > 0);
        if n <= 1 {
            return 0;
        }
        // multiply-shift; bias is irrelevant for workload generation
        ((self.next_u64() as u128 * n as u128) >> 64) as u64
    }

    pub fn below_usize(&mut self, n: usize) -> usize {
        self.below(n as u64) as usize
    }

    /// inclusive range
    pub fn range(&mut self, lo: u64, hi: u64) -> u64 {
        if hi <= lo {
            return lo;
        }
        let span = hi - lo;
        if span == u64::MAX {
            return self.next_u64();
        }
        lo + self.below(span + 1)
    }

    pub fn range128(&mut self, lo: u128, hi: u128) -> u128 {
        if hi <= lo {
            return lo;
        }
        let span = hi - lo;
        if span == u128::MAX {
            return self.next_u128();
        }
        lo + self.next_u128() % (span + 1)
    }

    /// true with probability num/den
    pub fn chance(&mut self, num: u64, den: u64) -> bool {
        self.below(den) < num
    }

    pub fn pick<'a, T>(&mut self, xs: &'a [T]) -> &'a T {
        &xs[self.below_usize(xs.len())]
    }

    pub fn pick_cloned<T: Clone>(&mut self, xs: &[T]) -> T {
        xs[self.below_usize(xs.len())].clone()
    }

    /// index chosen according to integer weights
    pub fn weighted(&mut self, weights: &[u32]) -> usize {
        let total: u64 = weights.iter().map(|w| *w as u64).sum();
        let mut r = self.below(total.max(1));
        for (i, w) in weights.iter().enumerate() {
            if r < *w as u64 {
                return i;
            }
            r -= *w as u64;
        }
        weights.len() - 1
    }

    pub fn shuffle<T>(&mut self, xs: &mut [T]) {
        for i in (1..xs.len()).rev() {
            let j = self.below_usize(i + 1);
            xs.swap(i, j);
        }
    }

    /// Boundary-biased u128 amount. `anchors` are values of interest in the current state
    /// (balances, allowances, room under a cap ...): x-1, x, x+1 are all likely.
    pub fn amount(&mut self, anchors: &[u128]) -> u128 {
        match self.below(20) {
            0 => 0,
            1 => 1,
            2 => 2,
            3 => u64::MAX as u128,
            4 => u64::MAX as u128 + 1,
            5 => u128::MAX,
            6 => u128::MAX - 1,
            7 => self.next_u128(),
            8 | 9 => self.below(1000) as u128,
            _ => {
                if anchors.is_empty() {
                    self.below(100_000) as u128
                } else {
                    let a = *self.pick(anchors);
                    match self.below(8) {
                        0 => a.saturating_sub(1),
                        1 => a,
                        2 => a.saturating_add(1),
                        3 => a / 2,
                        4 => a.saturating_add(self.below(50) as u128),
                        5 => a.saturating_sub(self.below(50) as u128),
                        6 => a,
                        _ => {
                            if a == 0 {
                                0
                            } else {
                                self.range128(0, a)
                            }
                        }
                    }
                }
            }
        }
    }

    /// Mostly-small amount that usually fits (for keeping ~half of calls successful).
    pub fn small_amount(&mut self, anchors: &[u128]) -> u128 {
        if self.chance(1, 8) {
            return self.amount(anchors);
        }
        if !anchors.is_empty() && self.chance(1, 2) {
            let a = *self.pick(anchors);
            if a == 0 {
                return self.below(5) as u128;
            }
            return match self.below(6) {
                0 => a,
                1 => a - 1,
                2 => a.saturating_add(1),
                _ => self.range128(0, a),
            };
        }
        self.below(200) as u128
    }
}

//! cw4-group under the DirectDriver: world, observable snapshot, op generator, history model.

use crate::core::Hist;
use crate::cw20w::{pool, short};
use crate::direct::{info, mk_addr, Res, World};
use crate::rng::Rng;
use cosmwasm_std::{from_json, Response};
use cw4::Member;
use cw4_group::msg::{ExecuteMsg, InstantiateMsg};
use std::collections::BTreeMap;
use std::sync::OnceLock;

/// pool of member addresses: the six actors plus two hook-ish contracts
pub fn hooks_pool() -> &'static Vec<String> {
    static P: OnceLock<Vec<String>> = OnceLock::new();
    P.get_or_init(|| ["hook-a", "hook-b", "hook-c"].iter().map(|n| mk_addr(n)).collect())
}

#[derive(Clone, Debug)]
pub enum Op {
    UpdateAdmin { admin: Option<String> },
    UpdateMembers { add: Vec<(String, u64)>, remove: Vec<String> },
    AddHook { addr: String },
    RemoveHook { addr: String },
}

impl Op {
    pub fn kind(&self) -> &'static str {
        match self {
            Op::UpdateAdmin { .. } => "update_admin",
            Op::UpdateMembers { .. } => "update_members",
            Op::AddHook { .. } => "add_hook",
            Op::RemoveHook { .. } => "remove_hook",
        }
    }
    pub fn to_msg(&self) -> ExecuteMsg {
        match self.clone() {
            Op::UpdateAdmin { admin } => ExecuteMsg::UpdateAdmin { admin },
            Op::UpdateMembers { add, remove } => ExecuteMsg::UpdateMembers {
                add: add
                    .into_iter()
                    .map(|(addr, weight)| Member { addr, weight })
                    .collect(),
                remove,
            },
            Op::AddHook { addr } => ExecuteMsg::AddHook { addr },
            Op::RemoveHook { addr } => ExecuteMsg::RemoveHook { addr },
        }
    }
}

#[derive(Clone, Debug, PartialEq, Eq, Hash, Default)]
pub struct Snap {
    pub admin: Option<String>,
    pub hooks: Vec<String>,
    /// ListMembers paged to exhaustion
    pub members: Vec<(String, u64)>,
    pub total: u64,
}

impl Snap {
    pub fn weight(&self, a: &str) -> Option<u64> {
        self.members.iter().find(|m| m.0 == a).map(|m| m.1)
    }
}

pub struct Group {
    pub w: World,
}

impl Group {
    pub fn new(rng: &mut Rng) -> Group {
        let h = rng.range(2, 5000);
        let t = rng.range(1_500_000_000, 1_900_000_000);
        let mut w = World::new(h, t);
        let (fb, fs) = rng.far_future();
        w.advance(fb, fs);
        w.block.time = w.block.time.plus_nanos(rng.below(1_000_000_000));
        Group { w }
    }
    pub fn instantiate(&mut self, admin: Option<String>, members: &[(String, u64)]) -> Res<Response> {
        let msg = InstantiateMsg {
            admin,
            members: members
                .iter()
                .map(|(a, w)| Member {
                    addr: a.clone(),
                    weight: *w,
                })
                .collect(),
        };
        let creator = pool().actors[0].clone();
        self.w
            .tx(|d, e| cw4_group::contract::instantiate(d, e, info(&creator), msg))
    }
    pub fn exec(&mut self, sender: &str, op: &Op) -> Res<Response> {
        let msg = op.to_msg();
        self.w
            .tx(|d, e| cw4_group::contract::execute(d, e, info(sender), msg))
    }
    /// all reads go through the contract's `query` entry point (JSON in, JSON out), like a client
    fn q<R: serde::de::DeserializeOwned>(&self, msg: cw4_group::msg::QueryMsg) -> Res<R> {
        self.w.q(|d, e| cw4_group::contract::query(d, e, msg).and_then(|b| from_json::<R>(&b)))
    }
    pub fn member(&self, a: &str, at: Option<u64>) -> Res<Option<u64>> {
        match self.q::<cw4::MemberResponse>(cw4_group::msg::QueryMsg::Member { addr: a.to_string(), at_height: at }) {
            Res::Ok(r) => Res::Ok(r.weight),
            Res::Err(e) => Res::Err(e),
            Res::Abort(e) => Res::Abort(e),
        }
    }
    pub fn total(&self, at: Option<u64>) -> Res<u64> {
        match self.q::<cw4::TotalWeightResponse>(cw4_group::msg::QueryMsg::TotalWeight { at_height: at }) {
            Res::Ok(r) => Res::Ok(r.weight),
            Res::Err(e) => Res::Err(e),
            Res::Abort(e) => Res::Abort(e),
        }
    }
    pub fn list(&self) -> Vec<(String, u64)> {
        let mut out = vec![];
        let mut cursor: Option<String> = None;
        loop {
            let page = self
                .q::<cw4::MemberListResponse>(cw4_group::msg::QueryMsg::ListMembers { start_after: cursor.clone(), limit: Some(3) })
                .ok()
                .map(|r| r.members)
                .unwrap_or_default();
            if page.is_empty() {
                break;
            }
            cursor = page.last().map(|m| m.addr.clone());
            out.extend(page.into_iter().map(|m| (m.addr, m.weight)));
            if out.len() > 500 {
                break;
            }
        }
        out
    }
    pub fn admin(&self) -> Option<String> {
        self.q::<cw_controllers::AdminResponse>(cw4_group::msg::QueryMsg::Admin {}).ok().and_then(|a| a.admin)
    }
    pub fn hooks(&self) -> Vec<String> {
        self.q::<cw_controllers::HooksResponse>(cw4_group::msg::QueryMsg::Hooks {}).ok().map(|h| h.hooks).unwrap_or_default()
    }
    /// raw storage read as another contract would do it (WasmQuery::Raw)
    pub fn raw_total(&self) -> Option<u64> {
        self.w.store.data.get(cw4::TOTAL_KEY.as_bytes()).and_then(|v| from_json::<u64>(v).ok())
    }
    pub fn raw_member(&self, a: &str) -> Option<u64> {
        self.w.store.data.get(&cw4::member_key(a)).and_then(|v| from_json::<u64>(v).ok())
    }
    /// read through the client-side helper the repository ships (packages/cw4 `Cw4Contract`): the very functions
    /// other contracts (cw3-flex-multisig) use for their cross-contract reads
    pub fn via_helper<T>(&self, f: impl FnOnce(&cw4::Cw4Contract, &cosmwasm_std::QuerierWrapper) -> cosmwasm_std::StdResult<T>) -> Option<T> {
        let router = crate::direct::Router { w: &self.w, smart: |d, e, m| cw4_group::contract::query(d, e, cosmwasm_std::from_json(m)?) };
        let q = cosmwasm_std::QuerierWrapper::new(&router);
        // a helper that aborts gives no answer (None), like one that errors
        std::panic::catch_unwind(std::panic::AssertUnwindSafe(|| f(&cw4::Cw4Contract::new(self.w.contract.clone()), &q).ok())).unwrap_or(None)
    }

    pub fn snap(&self) -> Snap {
        Snap {
            admin: self.admin(),
            hooks: self.hooks(),
            members: self.list(),
            total: self.total(None).ok().unwrap_or(0),
        }
    }
}

/// History model: value at the end of each block in which it changed.
#[derive(Default, Clone, Debug)]
pub struct Timeline<T: Clone> {
    pub changes: Vec<(u64, T)>,
}

impl<T: Clone + PartialEq> Timeline<T> {
    pub fn set(&mut self, block: u64, v: T) {
        if let Some(last) = self.changes.last_mut() {
            if last.0 == block {
                last.1 = v;
                return;
            }
        }
        self.changes.push((block, v));
    }
    /// value that held at the start of block h: after the last change in a block < h
    pub fn at_start(&self, h: u64) -> Option<&T> {
        self.changes.iter().rev().find(|(b, _)| *b < h).map(|(_, v)| v)
    }
    pub fn current(&self) -> Option<&T> {
        self.changes.last().map(|(_, v)| v)
    }
}

pub fn gen_weight(rng: &mut Rng) -> u64 {
    match rng.below(14) {
        0 => 0,
        1 => 1,
        2 => 2,
        3 => 3,
        4 => 5,
        5 => 1_000_000_000,
        6 => 1u64 << 63,
        7 => u64::MAX,
        _ => rng.below(50),
    }
}

pub fn gen_members(rng: &mut Rng, hostile: bool) -> Vec<(String, u64)> {
    let p = pool();
    let n = rng.below(7) as usize;
    let mut v: Vec<(String, u64)> = vec![];
    for _ in 0..n {
        let a = if hostile && rng.chance(1, 20) {
            rng.pick_cloned(&p.invalid)
        } else {
            rng.pick_cloned(&p.actors)
        };
        if !hostile && v.iter().any(|m| m.0 == a) {
            continue;
        }
        let w = if hostile { gen_weight(rng) } else { rng.below(20) };
        v.push((a, w));
    }
    if hostile && rng.chance(1, 4) && !v.is_empty() {
        let d = rng.pick(&v).clone();
        v.push(d); // the same entry twice, verbatim
    }
    if hostile && rng.chance(1, 6) && !v.is_empty() {
        let d = rng.pick(&v).clone();
        v.push((d.0.to_uppercase(), gen_weight(rng))); // the same account in another spelling
    }
    v
}

pub fn gen_op(rng: &mut Rng, s: &Snap, former_admins: &[String]) -> (String, Op) {
    let p = pool();
    let hp = hooks_pool();
    let sender = match (&s.admin, rng.below(10)) {
        (Some(a), 0..=6) => a.clone(),
        (_, 7) if !former_admins.is_empty() => rng.pick_cloned(former_admins),
        _ => rng.pick_cloned(&p.actors),
    };
    let op = match rng.weighted(&[60, 8, 18, 14]) {
        0 => {
            let na = rng.below(4) as usize;
            let mut add = vec![];
            for _ in 0..na {
                let a = if rng.chance(1, 30) { rng.pick_cloned(&p.invalid) } else { rng.pick_cloned(&p.actors) };
                if add.iter().any(|m: &(String, u64)| m.0 == a) && rng.chance(9, 10) {
                    continue; // duplicates in `add` are rejected; keep a few
                }
                // re-add at the same weight now and then
                let w = match s.weight(&a) {
                    Some(w) if rng.chance(1, 5) => w,
                    _ => if rng.chance(1, 6) { gen_weight(rng) } else { rng.below(30) },
                };
                add.push((a, w));
            }
            let nr = rng.below(3) as usize;
            let mut remove = vec![];
            for _ in 0..nr {
                let a = if !add.is_empty() && rng.chance(1, 4) {
                    rng.pick(&add).0.clone() // overlapping add/remove
                } else if !s.members.is_empty() && rng.chance(2, 3) {
                    rng.pick(&s.members).0.clone()
                } else {
                    rng.pick_cloned(&p.actors)
                };
                remove.push(a);
            }
            if rng.chance(1, 12) && !remove.is_empty() {
                let d = remove[0].clone();
                remove.push(d); // duplicate removal
            }
            if rng.chance(1, 15) && !add.is_empty() {
                let d = add[0].clone();
                add.push(d); // the same entry twice, verbatim
            }
            Op::UpdateMembers { add, remove }
        }
        1 => Op::UpdateAdmin {
            admin: match rng.below(8) {
                0 => None,
                1 => Some(rng.pick_cloned(&p.invalid)),
                _ => Some(rng.pick_cloned(&p.actors)),
            },
        },
        2 => Op::AddHook {
            addr: if rng.chance(1, 25) {
                rng.pick_cloned(&p.invalid)
            } else {
                // the hook contracts, and the admin itself (an admin contract may listen to its own group)
                let mut cands: Vec<String> = hp.clone();
                if let Some(a) = &s.admin {
                    cands.push(a.clone());
                }
                rng.pick_cloned(&cands)
            },
        },
        _ => Op::RemoveHook {
            addr: if !s.hooks.is_empty() && rng.chance(3, 4) { rng.pick_cloned(&s.hooks) } else { rng.pick_cloned(hp) },
        },
    };
    // now and then the listening contract itself asks to be (un)subscribed
    let mut side = rng.clone();
    side.below(1000);
    let sender = match &op {
        Op::AddHook { addr } | Op::RemoveHook { addr } if side.chance(1, 6) => addr.clone(),
        _ => sender,
    };
    (sender, op)
}

pub fn log_op(h: &mut Hist, g: &Group, sender: &str, op: &Op, r: &Res<Response>) {
    if h.keep_log {
        h.log.push(format!(
            "h={} {} -> {:?} => {}{}",
            g.w.block.height,
            short(sender),
            op,
            r.class(),
            match r {
                Res::Ok(_) => String::new(),
                _ => format!(" ({})", r.err_text()),
            }
        ));
    }
}

/// true weights per address as a map
pub fn as_map(members: &[(String, u64)]) -> BTreeMap<String, u64> {
    members.iter().cloned().collect()
}

//! cw1-whitelist and cw1-subkeys under the DirectDriver: world, snapshot, message/op generators
//! and the independent authorisation/allowance model shared by C07, C08, C16, C17.

use crate::core::Hist;
use crate::cw20w::{pool, short, Exp};
use crate::direct::{info, Res, World};
use crate::rng::Rng;
use cosmwasm_std::{
    coin, AnyMsg, BankMsg, Binary, Coin, CosmosMsg, DistributionMsg, Empty, GovMsg, IbcMsg,
    Env, IbcTimeout, Response, StakingMsg, Timestamp, Uint128, VoteOption, WasmMsg,
};
use cw1_subkeys::msg::ExecuteMsg as SubMsg;
use cw1_subkeys::state::Permissions;
use cw1_whitelist::msg::{ExecuteMsg as WlMsg, InstantiateMsg};
use std::collections::BTreeMap;

#[derive(Clone, Copy, PartialEq, Eq, Debug, Hash)]
pub enum Kind {
    Whitelist,
    Subkeys,
}

pub const DENOMS: [&str; 3] = ["uatom", "ubtc", "ueth"];
/// denominations granted now and then: unknown ones, and ones spelt with capital letters (IBC vouchers are)
pub const ODD_DENOMS: [&str; 4] = ["unknown", "UATOM", "ibc/27394FB092D2ECCD56123C74F36E4C1F926001CEADA9CA97EA622B25F41E5EB2", "factory/cosmwasm1abc/uLP"];

#[derive(Clone, Copy, Debug, PartialEq, Eq, Hash, Default)]
pub struct Perm {
    pub delegate: bool,
    pub redelegate: bool,
    pub undelegate: bool,
    pub withdraw: bool,
}

impl Perm {
    pub fn from(p: &Permissions) -> Perm {
        Perm {
            delegate: p.delegate,
            redelegate: p.redelegate,
            undelegate: p.undelegate,
            withdraw: p.withdraw,
        }
    }
    pub fn to(&self) -> Permissions {
        Permissions {
            delegate: self.delegate,
            redelegate: self.redelegate,
            undelegate: self.undelegate,
            withdraw: self.withdraw,
        }
    }
    pub fn bits(b: u64) -> Perm {
        Perm {
            delegate: b & 1 != 0,
            redelegate: b & 2 != 0,
            undelegate: b & 4 != 0,
            withdraw: b & 8 != 0,
        }
    }
}

/// A stored allowance as the monitor sees it: coins in stored order plus expiry.
#[derive(Clone, Debug, PartialEq, Eq, Hash)]
pub struct Allow {
    pub coins: Vec<(String, u128)>,
    pub exp: Exp,
}

impl Allow {
    pub fn map(&self) -> BTreeMap<String, u128> {
        let mut m = BTreeMap::new();
        for (d, a) in &self.coins {
            *m.entry(d.clone()).or_insert(0u128) += *a;
        }
        m
    }
    pub fn nonzero(&self) -> BTreeMap<String, u128> {
        self.map().into_iter().filter(|(_, a)| *a > 0).collect()
    }
}

#[derive(Clone, Debug, PartialEq, Eq, Hash, Default)]
pub struct Snap {
    pub admins: Vec<String>,
    pub mutable: bool,
    /// raw stored allowance per pool address (subkeys only), expired ones included
    pub raw: BTreeMap<String, Allow>,
    /// what the Allowance query shows (expired ones hidden)
    pub view: BTreeMap<String, Allow>,
    pub perms: BTreeMap<String, Perm>,
}

#[derive(Clone, Debug)]
pub enum Op {
    Execute { msgs: Vec<CosmosMsg> },
    Freeze,
    UpdateAdmins { admins: Vec<String> },
    Inc { spender: String, coin: (String, u128), exp: Option<Exp> },
    Dec { spender: String, coin: (String, u128), exp: Option<Exp> },
    SetPerm { spender: String, perm: Perm },
}

impl Op {
    pub fn kind(&self) -> &'static str {
        match self {
            Op::Execute { .. } => "execute",
            Op::Freeze => "freeze",
            Op::UpdateAdmins { .. } => "update_admins",
            Op::Inc { .. } => "increase_allowance",
            Op::Dec { .. } => "decrease_allowance",
            Op::SetPerm { .. } => "set_permissions",
        }
    }
}

const MAX_SELF_DEPTH: u32 = 6;

fn self_calls(e: &Env, r: &Response) -> Vec<cosmwasm_std::Binary> {
    r.messages
        .iter()
        .filter_map(|m| match &m.msg {
            CosmosMsg::Wasm(WasmMsg::Execute { contract_addr, msg, .. }) if *contract_addr == e.contract.address.as_str() => Some(msg.clone()),
            _ => None,
        })
        .collect()
}

fn run_wl(mut d: cosmwasm_std::DepsMut, e: Env, sender: &str, msg: WlMsg<Empty>, depth: u32, funds: Vec<Coin>) -> Result<Response, String> {
    let mut i = info(sender);
    i.funds = funds;
    let r = cw1_whitelist::contract::execute(d.branch(), e.clone(), i, msg).map_err(|x| x.to_string())?;
    if depth != u32::MAX {
        for b in self_calls(&e, &r) {
            if depth >= MAX_SELF_DEPTH {
                return Err("self-call nesting too deep".into());
            }
            let inner: WlMsg<Empty> = cosmwasm_std::from_json(&b).map_err(|x| format!("self-call not parseable: {x}"))?;
            let me = e.contract.address.to_string();
            run_wl(d.branch(), e.clone(), &me, inner, depth + 1, vec![])?;
        }
    }
    Ok(r)
}

fn run_sub(mut d: cosmwasm_std::DepsMut, e: Env, sender: &str, msg: SubMsg<Empty>, depth: u32, funds: Vec<Coin>) -> Result<Response, String> {
    let mut i = info(sender);
    i.funds = funds;
    let r = cw1_subkeys::contract::execute(d.branch(), e.clone(), i, msg).map_err(|x| x.to_string())?;
    if depth != u32::MAX {
        for b in self_calls(&e, &r) {
            if depth >= MAX_SELF_DEPTH {
                return Err("self-call nesting too deep".into());
            }
            let inner: SubMsg<Empty> = cosmwasm_std::from_json(&b).map_err(|x| format!("self-call not parseable: {x}"))?;
            let me = e.contract.address.to_string();
            run_sub(d.branch(), e.clone(), &me, inner, depth + 1, vec![])?;
        }
    }
    Ok(r)
}

pub struct Proxy {
    pub w: World,
    pub kind: Kind,
    /// deliver messages the proxy relays to ITSELF (WasmMsg::Execute to its own address) inside the same
    /// transaction, with the proxy as sender, as a chain would; a failing inner call fails the whole call
    pub dispatch_self: bool,
    /// native coins attached to the next calls (MessageInfo.funds)
    pub attach: Vec<Coin>,
    /// build Execute calls with the client helper the repository ships (packages/cw1 `Cw1Contract::execute`)
    /// and submit what it produced
    pub via_helper: bool,
}

impl Proxy {
    pub fn new(rng: &mut Rng, kind: Kind) -> Proxy {
        let h = rng.range(1, 5000);
        let t = rng.range(1_500_000_000, 1_900_000_000);
        let mut w = World::new(h, t);
        let (fb, fs) = rng.far_future();
        w.advance(fb, fs);
        w.block.time = w.block.time.plus_nanos(rng.below(1_000_000_000));
        Proxy { w, kind, dispatch_self: false, attach: vec![], via_helper: false }
    }

    pub fn instantiate(&mut self, admins: Vec<String>, mutable: bool) -> Res<Response> {
        let msg = InstantiateMsg { admins, mutable };
        let creator = pool().actors[0].clone();
        match self.kind {
            Kind::Whitelist => self.w.tx(|d, e| {
                cw1_whitelist::contract::instantiate(d, e, info(&creator), msg)
            }),
            Kind::Subkeys => self
                .w
                .tx(|d, e| cw1_subkeys::contract::instantiate(d, e, info(&creator), msg)),
        }
    }

    pub fn exec(&mut self, sender: &str, op: &Op) -> Res<Response> {
        // the submitted list as the packaged client helper encodes it (identical to the hand-built message)
        let helper_body: Option<cosmwasm_std::Binary> = match (self.via_helper, op) {
            (true, Op::Execute { msgs }) => match cw1::Cw1Contract(self.w.contract.clone()).execute(msgs.clone()) {
                Ok(CosmosMsg::Wasm(cosmwasm_std::WasmMsg::Execute { msg, .. })) => Some(msg),
                Ok(_) => return Res::Err("Cw1Contract::execute did not produce a wasm execute message".into()),
                Err(e) => return Res::Err(format!("Cw1Contract::execute failed: {e}")),
            },
            _ => None,
        };
        match self.kind {
            Kind::Whitelist => {
                let msg: WlMsg<Empty> = match op.clone() {
                    Op::Execute { .. } if helper_body.is_some() => match cosmwasm_std::from_json(helper_body.as_ref().unwrap()) {
                        Ok(m) => m,
                        Err(e) => return Res::Err(format!("helper output not understood by the proxy: {e}")),
                    },
                    Op::Execute { msgs } => WlMsg::Execute { msgs },
                    Op::Freeze => WlMsg::Freeze {},
                    Op::UpdateAdmins { admins } => WlMsg::UpdateAdmins { admins },
                    _ => return Res::Err("not a whitelist message".into()),
                };
                let ds = self.dispatch_self;
                let funds = self.attach.clone();
                self.w.tx(|d, e| run_wl(d, e, sender, msg, if ds { 0 } else { u32::MAX }, funds))
            }
            Kind::Subkeys => {
                let msg: SubMsg<Empty> = match op.clone() {
                    Op::Execute { .. } if helper_body.is_some() => match cosmwasm_std::from_json(helper_body.as_ref().unwrap()) {
                        Ok(m) => m,
                        Err(e) => return Res::Err(format!("helper output not understood by the proxy: {e}")),
                    },
                    Op::Execute { msgs } => SubMsg::Execute { msgs },
                    Op::Freeze => SubMsg::Freeze {},
                    Op::UpdateAdmins { admins } => SubMsg::UpdateAdmins { admins },
                    Op::Inc { spender, coin: c, exp } => SubMsg::IncreaseAllowance {
                        spender,
                        amount: coin(c.1, c.0),
                        expires: exp.map(|e| e.to()),
                    },
                    Op::Dec { spender, coin: c, exp } => SubMsg::DecreaseAllowance {
                        spender,
                        amount: coin(c.1, c.0),
                        expires: exp.map(|e| e.to()),
                    },
                    Op::SetPerm { spender, perm } => SubMsg::SetPermissions {
                        spender,
                        permissions: perm.to(),
                    },
                };
                let ds = self.dispatch_self;
                let funds = self.attach.clone();
                self.w.tx(|d, e| run_sub(d, e, sender, msg, if ds { 0 } else { u32::MAX }, funds))
            }
        }
    }

    pub fn can_execute(&self, sender: &str, msg: &CosmosMsg) -> Res<bool> {
        match self.kind {
            Kind::Whitelist => self.w.q(|d, e| {
                cw1_whitelist::contract::query(
                    d,
                    e,
                    cw1_whitelist::msg::QueryMsg::CanExecute {
                        sender: sender.into(),
                        msg: msg.clone(),
                    },
                )
                .and_then(|b| cosmwasm_std::from_json::<cw1::CanExecuteResponse>(&b))
                .map(|r| r.can_execute)
            }),
            Kind::Subkeys => self.w.q(|d, e| {
                cw1_subkeys::contract::query(
                    d,
                    e,
                    cw1_subkeys::msg::QueryMsg::CanExecute {
                        sender: sender.into(),
                        msg: msg.clone(),
                    },
                )
                .and_then(|b| cosmwasm_std::from_json::<cw1::CanExecuteResponse>(&b))
                .map(|r| r.can_execute)
            }),
        }
    }

    /// Subkeys only: Allowance / AllAllowances / Permissions / AllPermissions, all through the `query` entry
    /// point, against the stored grants in `s.raw` / `s.perms`. Returns a description of the first disagreement.
    pub fn queries_disagree(&self, s: &Snap) -> Option<String> {
        if self.kind != Kind::Subkeys {
            return None;
        }
        let (height, now) = (self.w.block.height, self.w.block.time.nanos());
        let live = |a: &str| s.raw.get(a).filter(|x| !x.exp.expired(height, now)).cloned();
        let to_allow = |b: &cw_utils::NativeBalance, e: &cw_utils::Expiration| Allow { coins: b.0.iter().map(|c| (c.denom.clone(), c.amount.u128())).collect(), exp: Exp::from(e) };
        let mut listed: BTreeMap<String, Allow> = BTreeMap::new();
        let mut cursor: Option<String> = None;
        loop {
            let page: Option<cw1_subkeys::msg::AllAllowancesResponse> = self
                .w
                .q(|d, e| cw1_subkeys::contract::query(d, e, cw1_subkeys::msg::QueryMsg::AllAllowances { start_after: cursor.clone(), limit: Some(30) }).and_then(|b| cosmwasm_std::from_json(&b)))
                .ok();
            let Some(page) = page else { return Some("AllAllowances failed".into()) };
            if page.allowances.is_empty() {
                break;
            }
            cursor = page.allowances.last().map(|a| a.spender.clone());
            for a in page.allowances {
                if listed.insert(a.spender.clone(), to_allow(&a.balance, &a.expires)).is_some() {
                    return Some(format!("AllAllowances lists {} twice", a.spender));
                }
            }
            if listed.len() > 2000 {
                break;
            }
        }
        let mut plisted: BTreeMap<String, Perm> = BTreeMap::new();
        let mut cursor: Option<String> = None;
        loop {
            let page: Option<cw1_subkeys::msg::AllPermissionsResponse> = self
                .w
                .q(|d, e| cw1_subkeys::contract::query(d, e, cw1_subkeys::msg::QueryMsg::AllPermissions { start_after: cursor.clone(), limit: Some(30) }).and_then(|b| cosmwasm_std::from_json(&b)))
                .ok();
            let Some(page) = page else { return Some("AllPermissions failed".into()) };
            if page.permissions.is_empty() {
                break;
            }
            cursor = page.permissions.last().map(|a| a.spender.clone());
            for a in page.permissions {
                plisted.insert(a.spender.clone(), Perm::from(&a.permissions));
            }
            if plisted.len() > 2000 {
                break;
            }
        }
        for a in &pool().actors {
            let want = live(a);
            if listed.get(a) != want.as_ref() {
                return Some(format!("AllAllowances shows {:?} for {a}, stored (unexpired) {:?}", listed.get(a), want));
            }
            let point = s.view.get(a).cloned();
            let want_point = want.unwrap_or(Allow { coins: vec![], exp: Exp::Never });
            if point.as_ref() != Some(&want_point) {
                return Some(format!("Allowance{{{a}}} shows {point:?}, stored (unexpired) {want_point:?}"));
            }
            if plisted.get(a) != s.perms.get(a) {
                return Some(format!("AllPermissions shows {:?} for {a}, stored {:?}", plisted.get(a), s.perms.get(a)));
            }
            let pp: Option<Permissions> = self
                .w
                .q(|d, e| cw1_subkeys::contract::query(d, e, cw1_subkeys::msg::QueryMsg::Permissions { spender: a.clone() }).and_then(|b| cosmwasm_std::from_json(&b)))
                .ok();
            let wantp = s.perms.get(a).copied().unwrap_or(Perm::bits(0));
            if pp.as_ref().map(Perm::from) != Some(wantp) {
                return Some(format!("Permissions{{{a}}} shows {pp:?}, stored {wantp:?}"));
            }
        }
        None
    }

    pub fn snap(&self) -> Snap {
        // reads go through the `query` entry point of the contract under test
        let al: cw1_whitelist::msg::AdminListResponse = match self.kind {
            Kind::Whitelist => self.w.q(|d, e| cw1_whitelist::contract::query(d, e, cw1_whitelist::msg::QueryMsg::AdminList {}).and_then(|b| cosmwasm_std::from_json(&b))),
            Kind::Subkeys => self.w.q(|d, e| cw1_subkeys::contract::query(d, e, cw1_subkeys::msg::QueryMsg::AdminList {}).and_then(|b| cosmwasm_std::from_json(&b))),
        }
        .ok()
        .unwrap_or(cw1_whitelist::msg::AdminListResponse { admins: vec![], mutable: false });
        let mut s = Snap {
            admins: al.admins,
            mutable: al.mutable,
            ..Default::default()
        };
        if self.kind == Kind::Subkeys {
            for a in &pool().actors {
                let addr = cosmwasm_std::Addr::unchecked(a);
                if let Ok(Some(x)) = cw1_subkeys::state::ALLOWANCES.may_load(&self.w.store, &addr) {
                    s.raw.insert(
                        a.clone(),
                        Allow {
                            coins: x.balance.0.iter().map(|c| (c.denom.clone(), c.amount.u128())).collect(),
                            exp: Exp::from(&x.expires),
                        },
                    );
                }
                let viewed: Option<cw1_subkeys::state::Allowance> = self
                    .w
                    .q(|d, e| cw1_subkeys::contract::query(d, e, cw1_subkeys::msg::QueryMsg::Allowance { spender: a.clone() }).and_then(|b| cosmwasm_std::from_json(&b)))
                    .ok();
                if let Some(x) = viewed {
                    s.view.insert(
                        a.clone(),
                        Allow {
                            coins: x.balance.0.iter().map(|c| (c.denom.clone(), c.amount.u128())).collect(),
                            exp: Exp::from(&x.expires),
                        },
                    );
                }
                if let Ok(Some(p)) = cw1_subkeys::state::PERMISSIONS.may_load(&self.w.store, &addr) {
                    s.perms.insert(a.clone(), Perm::from(&p));
                }
            }
        }
        s
    }
}

// ---------------------------------------------------------------------------------------------
// message generator: every CosmosMsg kind available in this build

pub fn msg_kind(m: &CosmosMsg) -> &'static str {
    #[allow(deprecated)]
    match m {
        CosmosMsg::Bank(BankMsg::Send { .. }) => "bank_send",
        CosmosMsg::Bank(BankMsg::Burn { .. }) => "bank_burn",
        CosmosMsg::Bank(_) => "bank_other",
        CosmosMsg::Staking(StakingMsg::Delegate { .. }) => "delegate",
        CosmosMsg::Staking(StakingMsg::Undelegate { .. }) => "undelegate",
        CosmosMsg::Staking(StakingMsg::Redelegate { .. }) => "redelegate",
        CosmosMsg::Staking(_) => "staking_other",
        CosmosMsg::Distribution(DistributionMsg::SetWithdrawAddress { .. }) => "set_withdraw_address",
        CosmosMsg::Distribution(DistributionMsg::WithdrawDelegatorReward { .. }) => "withdraw_reward",
        CosmosMsg::Distribution(_) => "distribution_other",
        CosmosMsg::Wasm(WasmMsg::Execute { .. }) => "wasm_execute",
        CosmosMsg::Wasm(WasmMsg::Instantiate { .. }) => "wasm_instantiate",
        CosmosMsg::Wasm(WasmMsg::Migrate { .. }) => "wasm_migrate",
        CosmosMsg::Wasm(_) => "wasm_other",
        CosmosMsg::Ibc(IbcMsg::Transfer { .. }) => "ibc_transfer",
        CosmosMsg::Ibc(IbcMsg::SendPacket { .. }) => "ibc_send_packet",
        CosmosMsg::Ibc(_) => "ibc_other",
        CosmosMsg::Gov(_) => "gov",
        CosmosMsg::Stargate { .. } => "stargate",
        CosmosMsg::Any(_) => "any",
        CosmosMsg::Custom(_) => "custom",
        _ => "other",
    }
}

fn gen_coins(rng: &mut Rng, anchors: &BTreeMap<String, u128>) -> Vec<Coin> {
    let n = match rng.below(10) {
        0 => 0,
        1 | 2 => 2,
        3 => 3,
        _ => 1,
    };
    let mut v = vec![];
    for _ in 0..n {
        let d = if rng.chance(1, 12) {
            // unknown or look-alike denominations (case variant, prefix, suffix of a granted one)
            rng.pick(&["unknown", "UATOM", "uato", "uatomx", "ubtc ", "Ueth", "ibc/27394fb092d2eccd56123c74f36e4c1f926001ceada9ca97ea622b25f41e5eb2", "factory/cosmwasm1abc/ulp"]).to_string()
        } else if !anchors.is_empty() && rng.chance(2, 3) {
            let ks: Vec<&String> = anchors.keys().collect();
            (*rng.pick(&ks)).clone()
        } else {
            rng.pick(&DENOMS).to_string()
        };
        let a = *anchors.get(&d).unwrap_or(&0);
        let amt = match rng.below(10) {
            0 => 0,
            1 => a,
            2 => a.saturating_add(1),
            3 => a.saturating_sub(1),
            4 => a / 2,
            5 => a / 3,
            _ => rng.small_amount(&[a]),
        };
        v.push(Coin {
            denom: d,
            amount: Uint128::new(amt),
        });
    }
    v
}

#[allow(deprecated)]
pub fn gen_msg(rng: &mut Rng, anchors: &BTreeMap<String, u128>, time_ns: u64) -> CosmosMsg {
    let p = pool();
    let to = rng.pick_cloned(&p.actors);
    let val = "cosmosvaloper1xyz".to_string();
    match rng.below(24) {
        0..=7 => BankMsg::Send {
            to_address: to,
            amount: gen_coins(rng, anchors),
        }
        .into(),
        8 => BankMsg::Burn {
            amount: gen_coins(rng, anchors),
        }
        .into(),
        9 | 10 => StakingMsg::Delegate {
            validator: val,
            amount: coin(rng.below(100) as u128, "uatom"),
        }
        .into(),
        11 => StakingMsg::Undelegate {
            validator: val,
            amount: coin(rng.below(100) as u128, "uatom"),
        }
        .into(),
        12 => StakingMsg::Redelegate {
            src_validator: val.clone(),
            dst_validator: format!("{val}2"),
            amount: coin(rng.below(100) as u128, "uatom"),
        }
        .into(),
        13 => DistributionMsg::SetWithdrawAddress { address: to }.into(),
        14 => DistributionMsg::WithdrawDelegatorReward { validator: val }.into(),
        15 => DistributionMsg::FundCommunityPool {
            amount: vec![coin(5, "uatom")],
        }
        .into(),
        16 => WasmMsg::Execute {
            contract_addr: to,
            msg: Binary::from(b"{}".to_vec()),
            funds: gen_coins(rng, anchors),
        }
        .into(),
        17 => WasmMsg::Instantiate {
            admin: None,
            code_id: rng.below(9),
            msg: Binary::from(b"{}".to_vec()),
            funds: vec![],
            label: "l".into(),
        }
        .into(),
        18 => WasmMsg::Migrate {
            contract_addr: to,
            new_code_id: 3,
            msg: Binary::from(b"{}".to_vec()),
        }
        .into(),
        19 => IbcMsg::Transfer {
            channel_id: "channel-1".into(),
            to_address: "remote".into(),
            amount: coin(rng.below(50) as u128, "uatom"),
            timeout: IbcTimeout::with_timestamp(Timestamp::from_nanos(time_ns.saturating_add(1000))),
            memo: None,
        }
        .into(),
        20 => IbcMsg::SendPacket {
            channel_id: "channel-1".into(),
            data: Binary::from(vec![1, 2, 3]),
            timeout: IbcTimeout::with_timestamp(Timestamp::from_nanos(time_ns.saturating_add(1000))),
        }
        .into(),
        21 => GovMsg::Vote {
            proposal_id: 1,
            option: VoteOption::Yes,
        }
        .into(),
        22 => CosmosMsg::Stargate {
            type_url: "/cosmos.bank.v1beta1.MsgSend".into(),
            value: Binary::from(vec![9]),
        },
        _ => CosmosMsg::Any(AnyMsg {
            type_url: "/cosmos.bank.v1beta1.MsgSend".into(),
            value: Binary::from(vec![7]),
        }),
    }
}

// ---------------------------------------------------------------------------------------------
// independent authorisation model

#[derive(Clone, Copy, PartialEq, Eq, Debug)]
pub enum Tri {
    Allow,
    Deny,
    /// the statement does not decide this case (zero-amount coin of a denomination without allowance)
    Unspecified,
}

/// Result of evaluating a message list for a non-admin subkey against the pre-state.
pub struct SpendEval {
    pub verdict: Tri,
    /// per-denomination total of the bank sends in the list
    pub spend: BTreeMap<String, u128>,
    pub reason: &'static str,
}

pub fn eval_subkey(
    raw: Option<&Allow>,
    perm: Option<&Perm>,
    msgs: &[CosmosMsg],
    height: u64,
    time_ns: u64,
) -> SpendEval {
    let mut remaining: Option<BTreeMap<String, u128>> = raw.map(|a| a.map());
    let expired = raw.map(|a| a.exp.expired(height, time_ns)).unwrap_or(false);
    let mut spend: BTreeMap<String, u128> = BTreeMap::new();
    let mut unspecified = false;
    for m in msgs {
        match m {
            CosmosMsg::Bank(BankMsg::Send { amount, .. }) => {
                let Some(rem) = remaining.as_mut() else {
                    return SpendEval { verdict: Tri::Deny, spend, reason: "no allowance" };
                };
                if expired {
                    return SpendEval { verdict: Tri::Deny, spend, reason: "allowance expired" };
                }
                for c in amount {
                    let x = c.amount.u128();
                    let have = *rem.get(&c.denom).unwrap_or(&0);
                    if x > have {
                        return SpendEval { verdict: Tri::Deny, spend, reason: "exceeds remaining allowance" };
                    }
                    // sending 0 of a denomination with nothing left: the statement does not decide it
                    if x == 0 && have == 0 {
                        unspecified = true;
                    }
                    rem.insert(c.denom.clone(), have - x);
                    let e = spend.entry(c.denom.clone()).or_insert(0);
                    *e = e.saturating_add(x);
                }
            }
            CosmosMsg::Staking(StakingMsg::Delegate { .. }) => {
                if !perm.map(|p| p.delegate).unwrap_or(false) {
                    return SpendEval { verdict: Tri::Deny, spend, reason: "no delegate permission" };
                }
            }
            CosmosMsg::Staking(StakingMsg::Undelegate { .. }) => {
                if !perm.map(|p| p.undelegate).unwrap_or(false) {
                    return SpendEval { verdict: Tri::Deny, spend, reason: "no undelegate permission" };
                }
            }
            CosmosMsg::Staking(StakingMsg::Redelegate { .. }) => {
                if !perm.map(|p| p.redelegate).unwrap_or(false) {
                    return SpendEval { verdict: Tri::Deny, spend, reason: "no redelegate permission" };
                }
            }
            CosmosMsg::Distribution(DistributionMsg::SetWithdrawAddress { .. })
            | CosmosMsg::Distribution(DistributionMsg::WithdrawDelegatorReward { .. }) => {
                if !perm.map(|p| p.withdraw).unwrap_or(false) {
                    return SpendEval { verdict: Tri::Deny, spend, reason: "no withdraw permission" };
                }
            }
            _ => {
                return SpendEval { verdict: Tri::Deny, spend, reason: "message kind not grantable" };
            }
        }
    }
    SpendEval {
        verdict: if unspecified { Tri::Unspecified } else { Tri::Allow },
        spend,
        reason: "covered",
    }
}

// ---------------------------------------------------------------------------------------------
// op generator

fn gen_exp(rng: &mut Rng, w: &World) -> Option<Exp> {
    let h = w.block.height;
    let t = w.block.time.nanos();
    match rng.below(12) {
        0 | 1 | 2 | 3 => None,
        4 => Some(Exp::Never),
        5 => Some(Exp::H(h)),
        6 => Some(Exp::H(h + 1)),
        7 => Some(Exp::H(h + rng.range(2, 6))),
        8 => Some(Exp::T(t)),
        9 => Some(Exp::T(t + 1)),
        10 => Some(Exp::T(t + rng.range(1, 30) * 1_000_000_000)),
        _ => Some(Exp::H(h.saturating_sub(1))),
    }
}

pub fn gen_msgs(rng: &mut Rng, p: &Proxy, s: &Snap, sender: &str) -> Vec<CosmosMsg> {
    let anchors = s.raw.get(sender).map(|a| a.map()).unwrap_or_default();
    let n = match rng.below(10) {
        0 => 0,
        1 | 2 => 2,
        3 => 3,
        4 => rng.range(4, 5) as usize,
        _ => 1,
    };
    (0..n)
        .map(|_| gen_msg(rng, &anchors, p.w.block.time.nanos()))
        .collect()
}

/// (sender, op)
/// an account name that resembles `a` without being it
pub fn lookalike(rng: &mut Rng, a: &str) -> String {
    match rng.below(8) {
        0..=2 => a.to_uppercase(),
        3 | 4 => a[..a.len().saturating_sub(1 + rng.below(6) as usize)].to_string(),
        5 => format!("{a}q"),
        6 => a[..a.len().min(9)].to_string(), // the bare bech32 prefix
        _ => String::new(),
    }
}

pub fn gen_op(rng: &mut Rng, p: &Proxy, s: &Snap) -> (String, Op) {
    let pl = pool();
    let admins: Vec<&String> = s.admins.iter().filter(|a| pl.actors.contains(a)).collect();
    let subkeys: Vec<&String> = s.raw.keys().chain(s.perms.keys()).collect();
    let any = |rng: &mut Rng| rng.pick_cloned(&pl.actors);
    let admin_or_any = |rng: &mut Rng| {
        if !admins.is_empty() && rng.chance(1, 25) {
            // a look-alike of an admin (a different account): upper case, cut short, extended, or no name at all
            let a = (*rng.pick(&admins)).clone();
            lookalike(rng, &a)
        } else if !admins.is_empty() && rng.chance(3, 4) {
            (*rng.pick(&admins)).clone()
        } else {
            rng.pick_cloned(&pl.actors)
        }
    };
    let weights: [u32; 6] = match p.kind {
        Kind::Whitelist => [60, 6, 34, 0, 0, 0],
        Kind::Subkeys => [40, 2, 8, 24, 14, 12],
    };
    match rng.weighted(&weights) {
        0 => {
            let sender = if !subkeys.is_empty() && rng.chance(3, 5) {
                (*rng.pick(&subkeys)).clone()
            } else {
                any(rng)
            };
            let msgs = gen_msgs(rng, p, s, &sender);
            // now and then the call comes from a look-alike of an admin instead
            let sender = if !admins.is_empty() && rng.chance(1, 30) {
                let a = (*rng.pick(&admins)).clone();
                lookalike(rng, &a)
            } else {
                sender
            };
            (sender, Op::Execute { msgs })
        }
        1 => (admin_or_any(rng), Op::Freeze),
        2 => {
            let n = rng.below(5) as usize;
            let mut v = vec![];
            for _ in 0..n {
                if rng.chance(1, 25) {
                    v.push(rng.pick_cloned(&pl.invalid));
                } else {
                    v.push(any(rng));
                }
            }
            // keep the current admins most of the time so the history can continue
            if rng.chance(2, 3) {
                for a in &s.admins {
                    if rng.chance(3, 4) && !v.contains(a) {
                        v.push(a.clone());
                    }
                }
            }
            (admin_or_any(rng), Op::UpdateAdmins { admins: v })
        }
        3 => {
            let spender = any(rng);
            // now and then a denomination nobody else uses, some of them spelt with capital letters
            let d = if rng.chance(1, 15) { rng.pick(&ODD_DENOMS).to_string() } else { rng.pick(&DENOMS).to_string() };
            let amt = match rng.below(12) {
                0 => 0,
                1 => u128::MAX,
                _ => rng.below(1000) as u128 + 1,
            };
            (admin_or_any(rng), Op::Inc { spender, coin: (d, amt), exp: gen_exp(rng, &p.w) })
        }
        4 => {
            let spender = if !subkeys.is_empty() && rng.chance(4, 5) { (*rng.pick(&subkeys)).clone() } else { any(rng) };
            let have = s.raw.get(&spender).map(|a| a.map()).unwrap_or_default();
            let d = if !have.is_empty() && rng.chance(4, 5) {
                let ks: Vec<&String> = have.keys().collect();
                (*rng.pick(&ks)).clone()
            } else {
                rng.pick(&DENOMS).to_string()
            };
            let a = *have.get(&d).unwrap_or(&0);
            let amt = match rng.below(6) {
                0 => a,
                1 => a.saturating_add(1),
                2 => a.saturating_sub(1),
                3 => 0,
                4 => u128::MAX,
                _ => rng.small_amount(&[a]),
            };
            (admin_or_any(rng), Op::Dec { spender, coin: (d, amt), exp: gen_exp(rng, &p.w) })
        }
        _ => (
            admin_or_any(rng),
            Op::SetPerm { spender: any(rng), perm: Perm::bits(rng.below(16)) },
        ),
    }
}

pub fn gen_advance(rng: &mut Rng, p: &mut Proxy, s: &Snap) {
    let h = p.w.block.height;
    let t = p.w.block.time.nanos();
    let live: Vec<Exp> = s
        .raw
        .values()
        .map(|a| a.exp)
        .filter(|e| !e.expired(h, t) && *e != Exp::Never)
        .collect();
    if !live.is_empty() && rng.chance(1, 2) {
        match *rng.pick(&live) {
            Exp::H(x) => {
                let target = match rng.below(3) {
                    0 => x.saturating_sub(1),
                    1 => x,
                    _ => x + 1,
                };
                if target > h && target - h < 50 {
                    p.w.advance(target - h, (target - h) * 5);
                    return;
                }
            }
            Exp::T(x) => {
                let target = match rng.below(3) {
                    0 => x.saturating_sub(1),
                    1 => x,
                    _ => x + 1,
                };
                if target > t {
                    p.w.block.time = Timestamp::from_nanos(target);
                    p.w.block.height += 1;
                    return;
                }
            }
            Exp::Never => {}
        }
    }
    p.w.advance(1, rng.range(1, 8));
}

pub fn gen_admins(rng: &mut Rng) -> (Vec<String>, bool) {
    let pl = pool();
    let n = rng.below(5) as usize;
    let mut v = vec![];
    for _ in 0..n {
        if rng.chance(1, 30) {
            v.push(rng.pick_cloned(&pl.invalid));
        } else {
            v.push(rng.pick_cloned(&pl.actors[..4])); // duplicates on purpose
        }
    }
    (v, rng.chance(4, 5))
}

pub fn log_op(h: &mut Hist, p: &Proxy, sender: &str, op: &Op, r: &Res<Response>) {
    if h.keep_log {
        let s = format!(
            "h={} t={} {} -> {:?} => {}{}",
            p.w.block.height,
            p.w.block.time.nanos(),
            short(sender),
            op,
            r.class(),
            match r {
                Res::Ok(_) => String::new(),
                _ => format!(" ({})", r.err_text()),
            }
        );
        h.log.push(s);
    }
}

// ---------------------------------------------------------------------------------------------
// independent shadow of the grants (what the admins granted, minus what was spent), kept by the
// monitors so that authority is not judged against state the contract itself may have corrupted

#[derive(Clone, Debug, Default, PartialEq)]
pub struct Shadow {
    pub allow: BTreeMap<String, Allow>,
    /// permissions as admins last set them
    pub perms: BTreeMap<String, Perm>,
    /// the admin set as requested at instantiation and by accepted, authorised UpdateAdmins calls
    /// (None until a monitor records the instantiation), and whether it may still change
    pub admins: Option<Vec<String>>,
    pub mutable: bool,
}

impl Shadow {
    /// apply a SUCCESSFUL call. `spend` is the per-denomination total of the caller's bank sends.
    pub fn apply(&mut self, sender: &str, op: &Op, was_admin: bool, spend: &BTreeMap<String, u128>, height: u64, time_ns: u64) {
        match op {
            Op::Inc { spender, coin, exp } if was_admin => {
                let live = self.allow.get(spender).filter(|a| !a.exp.expired(height, time_ns)).cloned();
                let mut a = live.unwrap_or(Allow { coins: vec![], exp: Exp::Never });
                if let Some(e) = exp {
                    a.exp = *e;
                }
                match a.coins.iter_mut().find(|c| c.0 == coin.0) {
                    Some(c) => c.1 = c.1.saturating_add(coin.1),
                    None => a.coins.push(coin.clone()),
                }
                self.allow.insert(spender.clone(), a);
            }
            Op::Dec { spender, coin, exp } if was_admin => {
                if let Some(a) = self.allow.get_mut(spender) {
                    if let Some(e) = exp {
                        a.exp = *e;
                    }
                    if let Some(pos) = a.coins.iter().position(|c| c.0 == coin.0) {
                        if a.coins[pos].1 <= coin.1 {
                            a.coins.remove(pos);
                        } else {
                            a.coins[pos].1 -= coin.1;
                        }
                    }
                    if a.coins.iter().all(|c| c.1 == 0) {
                        self.allow.remove(spender);
                    }
                }
            }
            Op::SetPerm { spender, perm } if was_admin => {
                self.perms.insert(spender.clone(), *perm);
            }
            Op::Execute { .. } if !was_admin => {
                if let Some(a) = self.allow.get_mut(sender) {
                    for (d, x) in spend {
                        if let Some(pos) = a.coins.iter().position(|c| c.0 == *d) {
                            let left = a.coins[pos].1.saturating_sub(*x);
                            if left == 0 {
                                a.coins.remove(pos);
                            } else {
                                a.coins[pos].1 = left;
                            }
                        }
                    }
                }
            }
            _ => {}
        }
    }
}

//! Verdicts, coverage accounting, history runner, evidence and known-findings handling.

use crate::rng::{hash_str, Rng};
use serde_json::{json, Value};
use std::collections::hash_map::DefaultHasher;
use std::collections::{BTreeMap, BTreeSet, HashSet};
use std::hash::{Hash, Hasher};
use std::sync::atomic::{AtomicU64, Ordering};
use std::time::{Duration, Instant};

#[derive(Clone, Copy, PartialEq, Eq, Debug)]
pub enum Tier {
    Quick,
    Thorough,
}

impl Tier {
    pub fn name(&self) -> &'static str {
        match self {
            Tier::Quick => "quick",
            Tier::Thorough => "thorough",
        }
    }
    pub fn pick<T>(&self, q: T, t: T) -> T {
        match self {
            Tier::Quick => q,
            Tier::Thorough => t,
        }
    }
}

#[derive(Clone, Debug)]
pub struct Violation {
    /// structural signature: call site / causal pattern, never random values
    pub sig: String,
    pub detail: String,
    pub hist: u64,
    pub log: Vec<String>,
}

/// Coverage and verdict accumulator. One per worker thread, merged at the end.
#[derive(Default)]
pub struct Out {
    pub histories: u64,
    /// transactions (or library evaluations) executed under the monitor
    pub evaluations: u64,
    /// individual oracle assertions evaluated
    pub oracle_checks: u64,
    /// distinct (op kind, outcome class, abstract pre-state class) triples
    pub distinct: HashSet<u64>,
    /// distinct abstract states observed at quiescent points
    pub states: HashSet<u64>,
    pub counters: BTreeMap<String, u64>,
    /// aborted calls (panics inside contract code) by panic location
    pub aborts: BTreeMap<String, u64>,
    pub samples: Vec<(u64, Value)>,
    pub violations: Vec<Violation>,
    pub inconclusive: Option<String>,
}

pub fn h64<T: Hash>(t: &T) -> u64 {
    let mut h = DefaultHasher::new();
    t.hash(&mut h);
    h.finish()
}

impl Out {
    pub fn count(&mut self, k: &str) {
        self.add(k, 1);
    }
    pub fn add(&mut self, k: &str, n: u64) {
        if let Some(v) = self.counters.get_mut(k) {
            *v += n;
        } else {
            self.counters.insert(k.to_string(), n);
        }
    }
    pub fn get(&self, k: &str) -> u64 {
        self.counters.get(k).copied().unwrap_or(0)
    }
    pub fn distinct<T: Hash>(&mut self, t: &T) {
        self.distinct.insert(h64(t));
    }
    pub fn state<T: Hash>(&mut self, t: &T) {
        self.states.insert(h64(t));
    }
    pub fn abort(&mut self, site: &str) {
        *self.aborts.entry(site.to_string()).or_insert(0) += 1;
    }
    pub fn merge(&mut self, o: Out) {
        self.histories += o.histories;
        self.evaluations += o.evaluations;
        self.oracle_checks += o.oracle_checks;
        self.distinct.extend(o.distinct);
        self.states.extend(o.states);
        for (k, v) in o.counters {
            *self.counters.entry(k).or_insert(0) += v;
        }
        for (k, v) in o.aborts {
            *self.aborts.entry(k).or_insert(0) += v;
        }
        self.samples.extend(o.samples);
        self.violations.extend(o.violations);
        if self.inconclusive.is_none() {
            self.inconclusive = o.inconclusive;
        }
    }
}

/// One history: its own PRNG, op log and a handle on the accumulator.
pub struct Hist<'a> {
    pub idx: u64,
    pub tier: Tier,
    pub rng: Rng,
    pub out: &'a mut Out,
    pub log: Vec<String>,
    pub failed: bool,
    pub keep_log: bool,
}

impl<'a> Hist<'a> {
    pub fn log(&mut self, s: impl FnOnce() -> String) {
        if self.keep_log {
            self.log.push(s());
        }
    }
    pub fn note(&mut self, s: String) {
        if self.keep_log {
            self.log.push(s);
        }
    }
    /// Record a violation. `sig` must be structural (no random values).
    pub fn violate(&mut self, sig: &str, detail: String) {
        self.failed = true;
        let same = self.out.violations.iter().filter(|v| v.sig == sig).count();
        if same >= 3 {
            return;
        }
        self.out.violations.push(Violation {
            sig: sig.to_string(),
            detail,
            hist: self.idx,
            log: self.log.clone(),
        });
    }
    /// Record a violation whose consequences are confined (the caller keeps checking the rest
    /// of the history). Deduplicated per (signature, history).
    pub fn violate_continue(&mut self, sig: &str, detail: String) {
        if self.out.violations.iter().any(|v| v.sig == sig && v.hist == self.idx) {
            return;
        }
        self.violate(sig, detail);
    }
    /// assert-style helper; returns cond
    pub fn check(&mut self, cond: bool, sig: &str, detail: impl FnOnce() -> String) -> bool {
        self.out.oracle_checks += 1;
        if !cond {
            self.violate(sig, detail());
        }
        cond
    }
}

pub trait Monitor: Sync {
    fn id(&self) -> &'static str;
    /// number of histories for this tier (directed scenarios first, then random)
    fn histories(&self, tier: Tier) -> u64;
    fn run_history(&self, h: &mut Hist);
    /// situation counters that must be non-zero for the run to count as "held"
    fn mandatory(&self) -> Vec<&'static str>;
    fn rule(&self) -> &'static str;
    fn assumptions(&self) -> Vec<&'static str>;
    fn engine(&self) -> &'static str;
    /// optional whole-run pass that is not history shaped (exhaustive enumeration etc.)
    fn extra(&self, _tier: Tier, _seed: u64, _out: &mut Out) {}
    /// does the extra pass enumerate a finite sub-space completely
    fn exhaustive_part(&self) -> Option<&'static str> {
        None
    }
}

pub struct RunCfg {
    pub tier: Tier,
    pub seed: u64,
    pub threads: usize,
    pub only_hist: Option<u64>,
    pub watchdog: Duration,
}

pub fn run_monitor(m: &dyn Monitor, cfg: &RunCfg) -> (Out, f64) {
    let start = Instant::now();
    let stream = hash_str(m.id());
    let n = m.histories(cfg.tier);
    let next = AtomicU64::new(0);
    let mut total = Out::default();

    let worker = |out: &mut Out| loop {
        let i = next.fetch_add(1, Ordering::Relaxed);
        if i >= n {
            break;
        }
        if let Some(only) = cfg.only_hist {
            if i != only {
                continue;
            }
        }
        if start.elapsed() > cfg.watchdog {
            out.inconclusive = Some(format!(
                "wall-clock watchdog ({}s) fired at history {}",
                cfg.watchdog.as_secs(),
                i
            ));
            break;
        }
        // op logs cost time; keep them for the first histories (samples) and regenerate the
        // log of a failing history by re-running it (histories are deterministic).
        let keep = i < 3 || cfg.only_hist.is_some();
        let nviol = out.violations.len();
        let mut h = Hist {
            idx: i,
            tier: cfg.tier,
            rng: Rng::new(cfg.seed, stream, i),
            out,
            log: Vec::new(),
            failed: false,
            keep_log: keep,
        };
        m.run_history(&mut h);
        let failed = h.failed;
        let log = std::mem::take(&mut h.log);
        if failed && !keep {
            let mut scratch = Out::default();
            let mut h2 = Hist {
                idx: i,
                tier: cfg.tier,
                rng: Rng::new(cfg.seed, stream, i),
                out: &mut scratch,
                log: Vec::new(),
                failed: false,
                keep_log: true,
            };
            m.run_history(&mut h2);
            if !scratch.violations.is_empty() {
                out.violations.truncate(nviol);
                for v in scratch.violations {
                    if out.violations.iter().filter(|x| x.sig == v.sig).count() < 3 {
                        out.violations.push(v);
                    }
                }
            }
        }
        out.histories += 1;
        if out.samples.len() < 3 && !log.is_empty() {
            let shown: Vec<&String> = log.iter().take(60).collect();
            out.samples.push((
                i,
                json!({"history": i, "ops_total": log.len(), "ops_shown": shown}),
            ));
        }
    };

    {
        // always run on spawned threads with a large stack: nested contract calls inside the
        // chain simulator use deep native recursion
        let nthreads = if cfg.only_hist.is_some() { 1 } else { cfg.threads.max(1) };
        let outs: Vec<Out> = std::thread::scope(|s| {
            let handles: Vec<_> = (0..nthreads)
                .map(|_| {
                    std::thread::Builder::new()
                        .stack_size(1 << 30)
                        .spawn_scoped(s, || {
                            let mut o = Out::default();
                            worker(&mut o);
                            o
                        })
                        .expect("spawn worker")
                })
                .collect();
            handles
                .into_iter()
                .map(|h| match h.join() {
                    Ok(o) => o,
                    Err(_) => {
                        let mut o = Out::default();
                        o.inconclusive = Some("harness worker thread panicked".into());
                        o
                    }
                })
                .collect()
        });
        for o in outs {
            total.merge(o);
        }
    }
    if cfg.only_hist.is_none() {
        m.extra(cfg.tier, cfg.seed, &mut total);
    }
    (total, start.elapsed().as_secs_f64())
}

// ---------------------------------------------------------------------------------------------
// known findings

pub struct Findings {
    /// (property, signature, text)
    pub known: Vec<(String, String, String)>,
}

impl Findings {
    pub fn load(root: &str) -> Findings {
        let mut known = vec![];
        if let Ok(txt) = std::fs::read_to_string(format!("{root}/KNOWN_FINDINGS.txt")) {
            for line in txt.lines() {
                let line = line.trim();
                if let Some(rest) = line.strip_prefix("known:") {
                    let mut prop = String::new();
                    let mut sig = String::new();
                    let mut text = vec![];
                    for tok in rest.split_whitespace() {
                        if let Some(p) = tok.strip_prefix("property=") {
                            if prop.is_empty() {
                                prop = p.to_string();
                                continue;
                            }
                        }
                        if let Some(s) = tok.strip_prefix("sig=") {
                            if sig.is_empty() {
                                sig = s.to_string();
                                continue;
                            }
                        }
                        text.push(tok);
                    }
                    if !prop.is_empty() && !sig.is_empty() {
                        known.push((prop, sig, text.join(" ")));
                    }
                }
            }
        }
        Findings { known }
    }
    pub fn lookup(&self, prop: &str, sig: &str) -> Option<&str> {
        self.known
            .iter()
            .find(|(p, s, _)| p == prop && s == sig)
            .map(|(_, _, t)| t.as_str())
    }
}

// ---------------------------------------------------------------------------------------------
// evidence + verdict

pub fn finish(m: &dyn Monitor, cfg: &RunCfg, mut out: Out, wall: f64, root: &str) -> i32 {
    let id = m.id();
    let findings = Findings::load(root);

    // mandatory situation counters
    if out.inconclusive.is_none() && cfg.only_hist.is_none() {
        for k in m.mandatory() {
            if out.get(k) == 0 {
                out.inconclusive = Some(format!("mandatory situation counter '{k}' is zero"));
                break;
            }
        }
        if out.inconclusive.is_none() && out.distinct.len() < 2 {
            out.inconclusive = Some("fewer than two distinct non-trivial cases observed".into());
        }
    }

    // split violations
    let mut known_seen: BTreeMap<String, (String, u64)> = BTreeMap::new();
    let mut unknown: Vec<&Violation> = vec![];
    for v in &out.violations {
        match findings.lookup(id, &v.sig) {
            Some(text) => {
                let e = known_seen
                    .entry(v.sig.clone())
                    .or_insert((text.to_string(), 0));
                e.1 += 1;
            }
            None => unknown.push(v),
        }
    }

    // replay files for unknown violations (one per signature)
    let mut replay_paths = vec![];
    let mut seen_sig = BTreeSet::new();
    let _ = std::fs::create_dir_all(format!("{root}/evidence/replay"));
    for v in &unknown {
        if !seen_sig.insert(v.sig.clone()) {
            continue;
        }
        let path = format!(
            "{root}/evidence/replay/{id}-{}-{}-{}.json",
            cfg.tier.name(),
            cfg.seed,
            v.hist
        );
        let body = json!({
            "property": id, "tier": cfg.tier.name(), "seed": cfg.seed, "history": v.hist,
            "signature": v.sig, "detail": v.detail, "ops": v.log,
        });
        let _ = std::fs::write(&path, serde_json::to_string_pretty(&body).unwrap());
        replay_paths.push((v.sig.clone(), path));
    }

    out.samples.sort_by_key(|(i, _)| *i);
    let samples: Vec<Value> = out.samples.iter().take(3).map(|(_, v)| v.clone()).collect();
    let samples = if samples.is_empty() {
        vec![json!({"note": "no history-shaped samples; see counters"})]
    } else {
        samples
    };
    let verdict = if !unknown.is_empty() {
        "violated"
    } else if out.inconclusive.is_some() {
        "inconclusive"
    } else {
        "held_on_observed"
    };

    if cfg.only_hist.is_none() {
        let ev = json!({
            "property_id": id,
            "tier": cfg.tier.name(),
            "seed": cfg.seed,
            "level": "exploration",
            "wall_s": wall,
            "violations": unknown.len(),
            "verdict": verdict,
            "inconclusive_reason": out.inconclusive,
            "coverage": {
                "evaluations": out.evaluations,
                "distinct_nontrivial": out.distinct.len(),
                "rule": m.rule(),
                "samples": samples,
                "exhaustive": false,
                "exhaustive_subspace": m.exhaustive_part(),
                "histories": out.histories,
                "oracle_checks": out.oracle_checks,
                "distinct_abstract_states": out.states.len(),
                "situation_counters": out.counters,
                "aborted_calls_by_site": out.aborts,
                "known_findings_seen": known_seen.iter().map(|(s,(t,n))| json!({"sig": s, "text": t, "occurrences": n})).collect::<Vec<_>>(),
                "engine": m.engine(),
                "threads": cfg.threads,
            },
            "assumptions": m.assumptions(),
        });
        let _ = std::fs::create_dir_all(format!("{root}/evidence"));
        let path = format!("{root}/evidence/{id}.json");
        if let Err(e) = std::fs::write(&path, serde_json::to_string_pretty(&ev).unwrap()) {
            println!("INCONCLUSIVE property={id} reason=cannot write evidence: {e}");
            return 2;
        }
    }

    println!(
        "[{id}] tier={} seed={} histories={} evaluations={} oracle_checks={} distinct={} states={} wall={:.1}s",
        cfg.tier.name(), cfg.seed, out.histories, out.evaluations, out.oracle_checks,
        out.distinct.len(), out.states.len(), wall
    );
    for (k, v) in &out.counters {
        println!("    {k} = {v}");
    }
    for (k, v) in &out.aborts {
        println!("    abort@{k} = {v}");
    }
    for (sig, (text, n)) in &known_seen {
        println!("KNOWN-FINDING: property={id} sig={sig} {text} (seen {n}x)");
    }
    if !unknown.is_empty() {
        for v in unknown.iter().take(6) {
            println!("  violation sig={} hist={} :: {}", v.sig, v.hist, v.detail);
        }
        for (_sig, path) in &replay_paths {
            println!("VIOLATION property={id} replay={path}");
        }
        return 1;
    }
    if let Some(r) = &out.inconclusive {
        println!("INCONCLUSIVE property={id} reason={r}");
        return 2;
    }
    println!("HELD property={id} (on everything observed)");
    0
}

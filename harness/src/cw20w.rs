//! cw20-base under the DirectDriver: world wrapper, observable snapshot, op generator.
//! Shared by the C01, C02, C13, C19 (and C20) monitors; each monitor brings its own oracle.

use crate::core::Hist;
use crate::direct::{info, mk_addr, Res, World};
use crate::rng::Rng;
use cosmwasm_std::{Binary, Response, Uint128};
use cw20::{Cw20Coin, Cw20ExecuteMsg, EmbeddedLogo, Expiration, Logo, MinterResponse};
use cw20_base::msg::{InstantiateMarketingInfo, InstantiateMsg};
use std::collections::BTreeMap;
use std::sync::OnceLock;

/// Own representation of an expiry (the oracle never calls Expiration::is_expired).
#[derive(Clone, Copy, Debug, PartialEq, Eq, Hash, PartialOrd, Ord)]
pub enum Exp {
    H(u64),
    /// nanoseconds
    T(u64),
    Never,
}

impl Exp {
    pub fn from(e: &Expiration) -> Exp {
        match e {
            Expiration::AtHeight(h) => Exp::H(*h),
            Expiration::AtTime(t) => Exp::T(t.nanos()),
            Expiration::Never {} => Exp::Never,
        }
    }
    pub fn to(&self) -> Expiration {
        match self {
            Exp::H(h) => Expiration::AtHeight(*h),
            Exp::T(t) => Expiration::AtTime(cosmwasm_std::Timestamp::from_nanos(*t)),
            Exp::Never => Expiration::Never {},
        }
    }
    /// reference semantics from the cw20 spec: expired once the block reaches the point
    pub fn expired(&self, height: u64, time_ns: u64) -> bool {
        match self {
            Exp::H(h) => height >= *h,
            Exp::T(t) => time_ns >= *t,
            Exp::Never => false,
        }
    }
}

pub struct Pool {
    /// valid bech32 addresses
    pub actors: Vec<String>,
    /// strings that must be rejected by address validation
    pub invalid: Vec<String>,
}

pub fn pool() -> &'static Pool {
    static P: OnceLock<Pool> = OnceLock::new();
    P.get_or_init(|| {
        let actors: Vec<String> = ["alice", "bob", "carol", "dave", "erin", "frank"]
            .iter()
            .map(|n| mk_addr(n))
            .collect();
        let up = actors[0].to_uppercase();
        Pool {
            actors,
            invalid: vec![
                "".into(),
                "x".into(),
                "not-an-address".into(),
                up,
                "cosmwasm1qqqqqqqqqqqqqqqqqqqqqqqqqqqqqqqq".into(),
            ],
        }
    })
}

#[derive(Clone, Debug)]
pub enum Op {
    Transfer { to: String, amt: u128 },
    Burn { amt: u128 },
    Send { to: String, amt: u128, payload: Vec<u8> },
    Mint { to: String, amt: u128 },
    Inc { spender: String, amt: u128, exp: Option<Exp> },
    Dec { spender: String, amt: u128, exp: Option<Exp> },
    TransferFrom { owner: String, to: String, amt: u128 },
    BurnFrom { owner: String, amt: u128 },
    SendFrom { owner: String, to: String, amt: u128, payload: Vec<u8> },
    UpdateMinter { new: Option<String> },
    UpdateMarketing,
    UploadLogo,
}

impl Op {
    pub fn kind(&self) -> &'static str {
        match self {
            Op::Transfer { .. } => "transfer",
            Op::Burn { .. } => "burn",
            Op::Send { .. } => "send",
            Op::Mint { .. } => "mint",
            Op::Inc { .. } => "increase_allowance",
            Op::Dec { .. } => "decrease_allowance",
            Op::TransferFrom { .. } => "transfer_from",
            Op::BurnFrom { .. } => "burn_from",
            Op::SendFrom { .. } => "send_from",
            Op::UpdateMinter { .. } => "update_minter",
            Op::UpdateMarketing => "update_marketing",
            Op::UploadLogo => "upload_logo",
        }
    }
    pub fn to_msg(&self) -> Cw20ExecuteMsg {
        match self.clone() {
            Op::Transfer { to, amt } => Cw20ExecuteMsg::Transfer {
                recipient: to,
                amount: Uint128::new(amt),
            },
            Op::Burn { amt } => Cw20ExecuteMsg::Burn {
                amount: Uint128::new(amt),
            },
            Op::Send { to, amt, payload } => Cw20ExecuteMsg::Send {
                contract: to,
                amount: Uint128::new(amt),
                msg: Binary::from(payload),
            },
            Op::Mint { to, amt } => Cw20ExecuteMsg::Mint {
                recipient: to,
                amount: Uint128::new(amt),
            },
            Op::Inc { spender, amt, exp } => Cw20ExecuteMsg::IncreaseAllowance {
                spender,
                amount: Uint128::new(amt),
                expires: exp.map(|e| e.to()),
            },
            Op::Dec { spender, amt, exp } => Cw20ExecuteMsg::DecreaseAllowance {
                spender,
                amount: Uint128::new(amt),
                expires: exp.map(|e| e.to()),
            },
            Op::TransferFrom { owner, to, amt } => Cw20ExecuteMsg::TransferFrom {
                owner,
                recipient: to,
                amount: Uint128::new(amt),
            },
            Op::BurnFrom { owner, amt } => Cw20ExecuteMsg::BurnFrom {
                owner,
                amount: Uint128::new(amt),
            },
            Op::SendFrom {
                owner,
                to,
                amt,
                payload,
            } => Cw20ExecuteMsg::SendFrom {
                owner,
                contract: to,
                amount: Uint128::new(amt),
                msg: Binary::from(payload),
            },
            Op::UpdateMinter { new } => Cw20ExecuteMsg::UpdateMinter { new_minter: new },
            Op::UpdateMarketing => Cw20ExecuteMsg::UpdateMarketing {
                project: Some("p".into()),
                description: None,
                marketing: None,
            },
            Op::UploadLogo => Cw20ExecuteMsg::UploadLogo(Logo::Embedded(EmbeddedLogo::Png(
                Binary::from(vec![0x89, b'P', b'N', b'G', 0x0d, 0x0a, 0x1a, 0x0a, 1, 2]),
            ))),
        }
    }
}

/// Everything observable that the cw20 oracles look at.
#[derive(Clone, Debug, PartialEq, Eq, Hash, Default)]
pub struct Snap {
    pub supply: u128,
    /// balances of all listed accounts and all pool addresses
    pub bal: BTreeMap<String, u128>,
    /// AllAccounts paged to exhaustion
    pub listed: Vec<String>,
    /// allowance for every ordered pool pair (owner, spender)
    pub allow: BTreeMap<(String, String), (u128, Exp)>,
    pub minter: Option<(String, Option<u128>)>,
}

pub struct Cw20 {
    pub w: World,
}

#[derive(Clone, Debug)]
pub struct InitCfg {
    pub balances: Vec<(String, u128)>,
    pub mint: Option<(String, Option<u128>)>,
    pub marketing: Option<String>,
}

impl Cw20 {
    pub fn new(rng: &mut Rng) -> Cw20 {
        let h = rng.range(1, 5000);
        let t = rng.range(1_500_000_000, 1_900_000_000);
        let mut w = World::new(h, t);
        // block times are rarely whole seconds
        let (fb, fs) = rng.far_future();
        w.advance(fb, fs);
        w.block.time = w.block.time.plus_nanos(rng.below(1_000_000_000));
        Cw20 { w }
    }

    pub fn instantiate(&mut self, cfg: &InitCfg) -> Res<Response> {
        let msg = InstantiateMsg {
            name: "Token".into(),
            symbol: "TKN".into(),
            decimals: 6,
            initial_balances: cfg
                .balances
                .iter()
                .map(|(a, x)| Cw20Coin {
                    address: a.clone(),
                    amount: Uint128::new(*x),
                })
                .collect(),
            mint: cfg.mint.as_ref().map(|(m, c)| MinterResponse {
                minter: m.clone(),
                cap: c.map(Uint128::new),
            }),
            marketing: cfg.marketing.as_ref().map(|m| InstantiateMarketingInfo {
                project: Some("proj".into()),
                description: Some("d".into()),
                marketing: Some(m.clone()),
                logo: None,
            }),
        };
        let creator = pool().actors[0].clone();
        self.w.tx(|deps, env| {
            cw20_base::contract::instantiate(deps, env, info(&creator), msg)
        })
    }

    pub fn exec(&mut self, sender: &str, op: &Op) -> Res<Response> {
        let msg = op.to_msg();
        self.w
            .tx(|deps, env| cw20_base::contract::execute(deps, env, info(sender), msg))
    }

    /// all reads go through the contract's `query` entry point (JSON in, JSON out), like a client
    pub fn q<R: serde::de::DeserializeOwned>(&self, msg: cw20_base::msg::QueryMsg) -> Option<R> {
        self.w
            .q(|d, e| cw20_base::contract::query(d, e, msg).and_then(|b| cosmwasm_std::from_json::<R>(&b)))
            .ok()
    }
    pub fn balance(&self, a: &str) -> u128 {
        self.q::<cw20::BalanceResponse>(cw20_base::msg::QueryMsg::Balance { address: a.to_string() }).map(|b| b.balance.u128()).unwrap_or(0)
    }
    pub fn supply(&self) -> u128 {
        self.q::<cw20::TokenInfoResponse>(cw20_base::msg::QueryMsg::TokenInfo {}).map(|t| t.total_supply.u128()).unwrap_or(0)
    }
    pub fn minter(&self) -> Option<(String, Option<u128>)> {
        self.q::<Option<cw20::MinterResponse>>(cw20_base::msg::QueryMsg::Minter {}).flatten().map(|m| (m.minter, m.cap.map(|c| c.u128())))
    }
    pub fn allowance(&self, o: &str, s: &str) -> (u128, Exp) {
        match self.q::<cw20::AllowanceResponse>(cw20_base::msg::QueryMsg::Allowance { owner: o.into(), spender: s.into() }) {
            Some(a) => (a.allowance.u128(), Exp::from(&a.expires)),
            None => (0, Exp::Never),
        }
    }
    pub fn all_accounts(&self) -> Vec<String> {
        let mut out: Vec<String> = vec![];
        let mut cursor: Option<String> = None;
        loop {
            let page = self
                .q::<cw20::AllAccountsResponse>(cw20_base::msg::QueryMsg::AllAccounts { start_after: cursor.clone(), limit: Some(30) })
                .map(|r| r.accounts)
                .unwrap_or_default();
            if page.is_empty() {
                break;
            }
            cursor = page.last().cloned();
            out.extend(page);
            if out.len() > 10_000 {
                break;
            }
        }
        out
    }
    pub fn owner_allowances(&self, owner: &str) -> Vec<(String, u128, Exp)> {
        let mut out = vec![];
        let mut cursor: Option<String> = None;
        loop {
            let page = self
                .q::<cw20::AllAllowancesResponse>(cw20_base::msg::QueryMsg::AllAllowances { owner: owner.into(), start_after: cursor.clone(), limit: Some(30) })
                .map(|r| r.allowances)
                .unwrap_or_default();
            if page.is_empty() {
                break;
            }
            cursor = page.last().map(|a| a.spender.clone());
            for a in page {
                out.push((a.spender, a.allowance.u128(), Exp::from(&a.expires)));
            }
            if out.len() > 10_000 {
                break;
            }
        }
        out
    }
    pub fn spender_allowances(&self, spender: &str) -> Vec<(String, u128, Exp)> {
        let mut out = vec![];
        let mut cursor: Option<String> = None;
        loop {
            let page = self
                .q::<cw20::AllSpenderAllowancesResponse>(cw20_base::msg::QueryMsg::AllSpenderAllowances { spender: spender.into(), start_after: cursor.clone(), limit: Some(30) })
                .map(|r| r.allowances)
                .unwrap_or_default();
            if page.is_empty() {
                break;
            }
            cursor = page.last().map(|a| a.owner.clone());
            for a in page {
                out.push((a.owner, a.allowance.u128(), Exp::from(&a.expires)));
            }
            if out.len() > 10_000 {
                break;
            }
        }
        out
    }

    /// read through the client-side helper the repository ships (packages/cw20 `Cw20Contract`)
    pub fn via_helper<T>(&self, f: impl FnOnce(&cw20::Cw20Contract, &cosmwasm_std::QuerierWrapper) -> cosmwasm_std::StdResult<T>) -> Option<T> {
        let router = crate::direct::Router { w: &self.w, smart: |d, e, m| cw20_base::contract::query(d, e, cosmwasm_std::from_json(m)?) };
        let q = cosmwasm_std::QuerierWrapper::new(&router);
        // a helper that aborts gives no answer (None), like one that errors
        std::panic::catch_unwind(std::panic::AssertUnwindSafe(|| f(&cw20::Cw20Contract(self.w.contract.clone()), &q).ok())).unwrap_or(None)
    }

    pub fn snap(&self, with_allow: bool) -> Snap {
        let p = pool();
        let listed = self.all_accounts();
        let mut bal = BTreeMap::new();
        for a in listed.iter().chain(p.actors.iter()) {
            if !bal.contains_key(a) {
                bal.insert(a.clone(), self.balance(a));
            }
        }
        let me = self.w.contract.to_string();
        bal.entry(me.clone()).or_insert_with(|| self.balance(&me));
        let mut allow = BTreeMap::new();
        if with_allow {
            for o in &p.actors {
                for s in &p.actors {
                    allow.insert((o.clone(), s.clone()), self.allowance(o, s));
                }
            }
        }
        Snap {
            supply: self.supply(),
            bal,
            listed,
            allow,
            minter: self.minter(),
        }
    }
}

/// Random instantiate configuration covering the quantifier of C01/C13.
/// add `n` further holders (addresses outside the actor pool, small balances), raising a cap by the same amount
pub fn add_holders(rng: &mut Rng, cfg: &mut InitCfg, n: usize) {
    let mut added: u128 = 0;
    for i in 0..n {
        let x = 1 + rng.below(500) as u128;
        added += x;
        cfg.balances.push((mk_addr(&format!("holder-{i:03}")), x));
    }
    if let Some((_, Some(cap))) = &mut cfg.mint {
        *cap = cap.saturating_add(added);
    }
}

pub fn gen_init(rng: &mut Rng, force_valid: bool) -> InitCfg {
    let p = pool();
    let n = rng.below(7) as usize;
    let mut balances = vec![];
    let mut used: Vec<String> = vec![];
    for _ in 0..n {
        let a = if !force_valid && rng.chance(1, 25) {
            rng.pick_cloned(&p.invalid)
        } else if !force_valid && rng.chance(1, 12) && !used.is_empty() {
            rng.pick_cloned(&used) // duplicate
        } else {
            let mut a = rng.pick_cloned(&p.actors);
            if force_valid {
                let mut tries = 0;
                while used.contains(&a) && tries < 20 {
                    a = rng.pick_cloned(&p.actors);
                    tries += 1;
                }
                if used.contains(&a) {
                    continue;
                }
            }
            a
        };
        used.push(a.clone());
        let amt = match rng.below(12) {
            0 => 0,
            1 => 1,
            2 if !force_valid => u128::MAX,
            3 if !force_valid => u128::MAX / 2 + 1,
            4 => u64::MAX as u128 + 7,
            _ => rng.below(1_000_000) as u128,
        };
        balances.push((a, amt));
    }
    let sum: u128 = balances
        .iter()
        .fold(0u128, |s, (_, x)| s.saturating_add(*x));
    let mint = match rng.below(6) {
        0 => None,
        1 => Some((rng.pick_cloned(&p.actors), None)),
        2 => Some((rng.pick_cloned(&p.actors), Some(sum))), // cap exactly at supply
        3 if !force_valid => Some((rng.pick_cloned(&p.actors), Some(sum.saturating_sub(1)))),
        4 => Some((
            rng.pick_cloned(&p.actors),
            Some(sum.saturating_add(rng.below(5000) as u128)),
        )),
        _ => Some((
            rng.pick_cloned(&p.actors),
            Some(sum.saturating_add(rng.below(2_000_000) as u128 + 1)),
        )),
    };
    let mint = match mint {
        Some((_, c)) if !force_valid && rng.chance(1, 30) => {
            Some((rng.pick_cloned(&p.invalid), c))
        }
        m => m,
    };
    InitCfg {
        balances,
        mint,
        marketing: if rng.chance(1, 3) {
            Some(rng.pick_cloned(&p.actors))
        } else {
            None
        },
    }
}

/// op-mix weights, indexed like the `Op` variants
#[derive(Clone, Copy)]
pub struct Mix(pub [u32; 12]);

pub const MIX_BALANCED: Mix = Mix([14, 6, 8, 8, 12, 8, 14, 7, 8, 3, 1, 1]);
pub const MIX_ALLOWANCE: Mix = Mix([6, 3, 4, 4, 22, 14, 18, 9, 10, 1, 0, 0]);
pub const MIX_MINTER: Mix = Mix([6, 10, 2, 30, 3, 2, 3, 3, 2, 22, 1, 1]);

fn gen_exp(rng: &mut Rng, w: &World) -> Option<Exp> {
    let h = w.block.height;
    let t = w.block.time.nanos();
    match rng.below(12) {
        0 | 1 | 2 => None,
        3 => Some(Exp::Never),
        4 => Some(Exp::H(h)),                        // already reached
        5 => Some(Exp::H(h + 1)),                    // next block
        6 => Some(Exp::H(h + rng.range(2, 6))),
        7 => Some(Exp::T(t)),                        // already reached
        8 => Some(Exp::T(t + 1)),                    // one nanosecond ahead
        9 => Some(Exp::T(t + rng.range(1, 30) * 1_000_000_000)),
        10 => Some(Exp::H(h.saturating_sub(1))),     // past
        _ => Some(Exp::T(t.saturating_sub(1_000_000_000))),
    }
}

fn pick_target(rng: &mut Rng, me: &str) -> String {
    let p = pool();
    match rng.below(30) {
        0 => rng.pick_cloned(&p.invalid),
        1 => me.to_string(),
        _ => rng.pick_cloned(&p.actors),
    }
}

/// Generate (sender, op) biased towards the current observable state.
pub fn gen_op(rng: &mut Rng, c: &Cw20, s: &Snap, mix: &Mix) -> (String, Op) {
    let p = pool();
    let me = c.w.contract.to_string();
    let funded: Vec<&String> = p
        .actors
        .iter()
        .filter(|a| s.bal.get(*a).copied().unwrap_or(0) > 0)
        .collect();
    let sender = if rng.chance(1, 40) {
        me.clone()
    } else if !funded.is_empty() && rng.chance(2, 3) {
        (*rng.pick(&funded)).clone()
    } else {
        rng.pick_cloned(&p.actors)
    };
    let sb = *s.bal.get(&sender).unwrap_or(&0);
    let payload = |rng: &mut Rng| -> Vec<u8> {
        let n = rng.below(6);
        (0..n).map(|_| rng.below(256) as u8).collect()
    };
    let k = rng.weighted(&mix.0);
    let op = match k {
        0 => Op::Transfer {
            to: pick_target(rng, &me),
            amt: rng.small_amount(&[sb]),
        },
        1 => Op::Burn {
            amt: rng.small_amount(&[sb]),
        },
        2 => Op::Send {
            to: pick_target(rng, &me),
            amt: rng.small_amount(&[sb]),
            payload: payload(rng),
        },
        3 => {
            let room = match &s.minter {
                Some((_, Some(cap))) => cap.saturating_sub(s.supply),
                _ => u128::MAX - s.supply,
            };
            // the minter mints most of the time, others try too
            let amt = rng.small_amount(&[room]);
            return (
                match &s.minter {
                    Some((m, _)) if rng.chance(3, 4) => m.clone(),
                    _ => sender,
                },
                Op::Mint {
                    to: pick_target(rng, &me),
                    amt,
                },
            );
        }
        4 => {
            let mut spender = pick_target(rng, &me);
            if spender == sender {
                spender = pick_target(rng, &me);
            }
            Op::Inc {
                spender,
                amt: rng.small_amount(&[sb, 100]),
                exp: gen_exp(rng, &c.w),
            }
        }
        5 => {
            // prefer an existing allowance of any owner
            let pairs: Vec<(&(String, String), &(u128, Exp))> =
                s.allow.iter().filter(|(_, v)| v.0 > 0).collect();
            let (sender, spender) = if !pairs.is_empty() && rng.chance(4, 5) {
                let (k, _) = *rng.pick(&pairs);
                (k.0.clone(), k.1.clone())
            } else {
                (sender, pick_target(rng, &me))
            };
            let a = s
                .allow
                .get(&(sender.clone(), spender.clone()))
                .map(|x| x.0)
                .unwrap_or(0);
            return (
                sender,
                Op::Dec {
                    spender,
                    amt: rng.small_amount(&[a]),
                    exp: if rng.chance(1, 2) { None } else { gen_exp(rng, &c.w) },
                },
            );
        }
        6 | 7 | 8 => {
            // prefer a (owner, spender) pair with a positive allowance
            let pairs: Vec<(&(String, String), &(u128, Exp))> =
                s.allow.iter().filter(|(_, v)| v.0 > 0).collect();
            let (owner, sender) = if !pairs.is_empty() && rng.chance(5, 6) {
                let (k, _) = *rng.pick(&pairs);
                (k.0.clone(), k.1.clone())
            } else {
                (pick_target(rng, &me), sender)
            };
            let a = s
                .allow
                .get(&(owner.clone(), sender.clone()))
                .map(|x| x.0)
                .unwrap_or(0);
            let ob = *s.bal.get(&owner).unwrap_or(&0);
            let amt = rng.small_amount(&[a, ob, a.min(ob), a.min(ob)]);
            let op = match k {
                6 => Op::TransferFrom {
                    owner,
                    to: pick_target(rng, &me),
                    amt,
                },
                7 => Op::BurnFrom { owner, amt },
                _ => Op::SendFrom {
                    owner,
                    to: pick_target(rng, &me),
                    amt,
                    payload: payload(rng),
                },
            };
            return (sender, op);
        }
        9 => {
            let new = match rng.below(8) {
                0 => None,
                1 => Some(rng.pick_cloned(&p.invalid)),
                _ => Some(rng.pick_cloned(&p.actors)),
            };
            return (
                match &s.minter {
                    Some((m, _)) if rng.chance(2, 3) => m.clone(),
                    _ => sender,
                },
                Op::UpdateMinter { new },
            );
        }
        10 => Op::UpdateMarketing,
        _ => Op::UploadLogo,
    };
    (sender, op)
}

/// Advance the chain: same block, +1, or onto / around a live expiry.
pub fn gen_advance(rng: &mut Rng, c: &mut Cw20, s: &Snap) -> (u64, u64) {
    let h = c.w.block.height;
    let t = c.w.block.time.nanos();
    let live: Vec<Exp> = s
        .allow
        .values()
        .map(|a| a.1)
        .filter(|e| !e.expired(h, t) && *e != Exp::Never)
        .collect();
    if !live.is_empty() && rng.chance(1, 3) {
        match *rng.pick(&live) {
            Exp::H(x) => {
                let target = match rng.below(3) {
                    0 => x.saturating_sub(1),
                    1 => x,
                    _ => x + 1,
                };
                if target > h && target - h < 50 {
                    let d = target - h;
                    c.w.advance(d, d * 5);
                    return (d, d * 5);
                }
            }
            Exp::T(x) => {
                // move time to x-1ns / x / x+1ns : advance() takes seconds, so set directly
                let target = match rng.below(3) {
                    0 => x.saturating_sub(1),
                    1 => x,
                    _ => x + 1,
                };
                if target > t {
                    c.w.block.time = cosmwasm_std::Timestamp::from_nanos(target);
                    c.w.block.height += 1;
                    return (1, 0);
                }
            }
            Exp::Never => {}
        }
    }
    let (b, s_) = match rng.below(4) {
        0 => (1, 5),
        1 => (1, 1),
        2 => (rng.range(2, 4), rng.range(5, 30)),
        _ => (1, 6),
    };
    c.w.advance(b, s_);
    (b, s_)
}

pub fn short(a: &str) -> String {
    let p = pool();
    let names = ["alice", "bob", "carol", "dave", "erin", "frank"];
    for (i, x) in p.actors.iter().enumerate() {
        if x == a {
            return names[i].to_string();
        }
    }
    if a.len() > 14 {
        format!("{}..", &a[..14])
    } else {
        format!("{a:?}")
    }
}

pub fn log_op(h: &mut Hist, c: &Cw20, sender: &str, op: &Op, r: &Res<Response>) {
    if h.keep_log {
        let s = format!(
            "h={} t={} {} -> {:?} => {}{}",
            c.w.block.height,
            c.w.block.time.nanos(),
            short(sender),
            op,
            r.class(),
            match r {
                Res::Ok(_) => String::new(),
                _ => format!(" ({})", r.err_text()),
            }
        );
        h.log.push(s);
    }
}

use cwv::core::{finish, run_monitor, RunCfg, Tier};
use std::time::Duration;

fn usage() -> ! {
    eprintln!("usage: cwv --property Cnn [--tier quick|thorough] [--seed N] [--threads N] [--replay FILE] [--hist N]");
    std::process::exit(2)
}

fn main() {
    let args: Vec<String> = std::env::args().collect();
    let mut prop = String::new();
    let mut tier = match std::env::var("VERIF_TIER").ok().as_deref() {
        Some("thorough") => Tier::Thorough,
        _ => Tier::Quick,
    };
    let mut tier_given = false;
    let mut seed: u64 = std::env::var("VERIF_SEED")
        .ok()
        .and_then(|s| s.trim().parse::<i64>().ok())
        .map(|x| x as u64)
        .unwrap_or(1);
    let mut threads = std::thread::available_parallelism()
        .map(|n| n.get())
        .unwrap_or(4)
        .min(16);
    let mut only: Option<u64> = None;
    let mut i = 1;
    while i < args.len() {
        let a = args[i].as_str();
        let v = args.get(i + 1).cloned();
        match a {
            "--property" => prop = v.unwrap_or_else(|| usage()),
            "--tier" => {
                tier = match v.as_deref() {
                    Some("quick") => Tier::Quick,
                    Some("thorough") => Tier::Thorough,
                    _ => usage(),
                };
                tier_given = true;
            }
            "--seed" => seed = v.and_then(|s| s.parse::<i64>().ok()).map(|x| x as u64).unwrap_or_else(|| usage()),
            "--threads" => threads = v.and_then(|s| s.parse().ok()).unwrap_or_else(|| usage()),
            "--hist" => only = Some(v.and_then(|s| s.parse().ok()).unwrap_or_else(|| usage())),
            "--replay" => {
                let path = v.unwrap_or_else(|| usage());
                let txt = match std::fs::read_to_string(&path) {
                    Ok(t) => t,
                    Err(e) => {
                        println!("INCONCLUSIVE property={prop} reason=cannot read replay file: {e}");
                        std::process::exit(2);
                    }
                };
                let j: serde_json::Value = serde_json::from_str(&txt).unwrap_or_default();
                if let Some(p) = j["property"].as_str() {
                    if prop.is_empty() {
                        prop = p.to_string();
                    }
                }
                if let Some(s) = j["seed"].as_u64() {
                    seed = s;
                }
                if let Some(h) = j["history"].as_u64() {
                    only = Some(h);
                }
                if !tier_given {
                    tier = match j["tier"].as_str() {
                        Some("thorough") => Tier::Thorough,
                        _ => Tier::Quick,
                    };
                }
            }
            _ => usage(),
        }
        i += 2;
    }
    let _ = tier_given;
    let root = std::env::var("CWV_ROOT").unwrap_or_else(|_| "/verif".into());
    let Some(m) = cwv::monitor::get(&prop) else {
        println!("INCONCLUSIVE property={prop} reason=no monitor registered for this property");
        std::process::exit(2);
    };
    cwv::direct::install_panic_hook();
    let cfg = RunCfg {
        tier,
        seed,
        threads,
        only_hist: only,
        watchdog: Duration::from_secs(match tier {
            Tier::Quick => 15 * 60,
            Tier::Thorough => 90 * 60,
        }),
    };
    // hard wall-clock watchdog: a history that never returns is inconclusive, never a violation
    {
        let limit = cfg.watchdog + Duration::from_secs(120);
        let prop = prop.clone();
        std::thread::spawn(move || {
            std::thread::sleep(limit);
            println!("INCONCLUSIVE property={prop} reason=hard wall-clock watchdog fired (a history did not return)");
            std::process::exit(2);
        });
    }
    let (out, wall) = run_monitor(m.as_ref(), &cfg);
    let code = finish(m.as_ref(), &cfg, out, wall, &root);
    std::process::exit(code);
}

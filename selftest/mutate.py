#!/usr/bin/env python3
"""Self-test of the monitors: plant one small break in /repo (textual replacement), run the
property's check, expect exit 1 with a VIOLATION line for that property, and restore /repo.
Usage: mutate.py [--tier quick|thorough] [--only ID[,ID..]] [--prop Cnn]
Never run `vp check` while this is running (it edits /repo's working tree temporarily)."""
import subprocess, sys, os, json, time, argparse

ROOT = os.path.dirname(os.path.dirname(os.path.abspath(__file__)))
sys.path.insert(0, os.path.dirname(os.path.abspath(__file__)))
from mutants import MUTANTS

def sh(cmd, **kw):
    try:
        return subprocess.run(cmd, shell=True, capture_output=True, text=True, timeout=kw.pop("timeout", 600), **kw)
    except subprocess.TimeoutExpired as e:
        subprocess.run("pkill -f target/release/cwv", shell=True)
        class R: pass
        r = R(); r.returncode = 124; r.stdout = "TIMEOUT"; r.stderr = ""
        return r

def restore():
    sh("git -C /repo checkout -- . && git -C /repo clean -fdq -- contracts packages")

def main():
    ap = argparse.ArgumentParser()
    ap.add_argument("--tier", default="quick")
    ap.add_argument("--only", default="")
    ap.add_argument("--prop", default="")
    ap.add_argument("--check-tests", action="store_true", help="also run the repo test-suite on the mutant (slow)")
    a = ap.parse_args()
    only = set(x for x in a.only.split(",") if x)
    st = sh("git -C /repo status --porcelain --untracked-files=no")
    if st.stdout.strip():
        print("refusing: /repo working tree is dirty:\n" + st.stdout); sys.exit(2)
    results = []
    try:
        for m in MUTANTS:
            if only and m["id"] not in only: continue
            if a.prop and a.prop not in m["props"]: continue
            path = os.path.join("/repo", m["file"])
            src = open(path).read()
            if src.count(m["old"]) != 1:
                print(f"{m['id']}: pattern occurs {src.count(m['old'])} times, skipped"); results.append((m["id"], "BAD-PATTERN", "")); continue
            open(path, "w").write(src.replace(m["old"], m["new"]))
            try:
                tests = ""
                if a.check_tests:
                    t = sh("cd /repo && cargo test --workspace --offline 2>&1 | grep -E '^test result|FAILED|failed' | sort | uniq -c | head -5")
                    tests = t.stdout.strip().replace("\n", " | ")
                for prop in m["props"]:
                    if a.prop and prop != a.prop: continue
                    t0 = time.time()
                    r = sh(f"cd {ROOT} && ./check {prop} {a.tier}")
                    viol = [l for l in r.stdout.splitlines() if l.startswith("VIOLATION") or l.strip().startswith("violation sig=")]
                    status = {0: "MISSED", 1: "CAUGHT", 2: "INCONCLUSIVE"}.get(r.returncode, f"exit{r.returncode}")
                    sig = viol[0].strip()[:160] if viol else (r.stdout.strip().splitlines()[-1][:160] if r.stdout.strip() else r.stderr[-200:])
                    print(f"{m['id']:28s} {prop} {status:12s} {time.time()-t0:5.1f}s  {sig}  {tests}")
                    results.append((m["id"] + ":" + prop, status, sig))
            finally:
                open(path, "w").write(src)
    finally:
        restore()
    missed = [r for r in results if r[1] != "CAUGHT"]
    print(f"\n{len(results)-len(missed)}/{len(results)} caught")
    json.dump(results, open(os.path.join(ROOT, "selftest", "last_results.json"), "w"), indent=1)
    sys.exit(1 if missed else 0)

if __name__ == "__main__":
    main()

# Planted breaks used to validate the monitors (each compiles; most leave the 175 tests green).
# {id, props: [properties expected to fire], file (relative to /repo), old, new}
MUTANTS = [
 # ---- C01
 {"id": "c01-transfer-drop-credit", "props": ["C01"], "file": "contracts/cw20-base/src/contract.rs",
  "old": """    BALANCES.update(
        deps.storage,
        &rcpt_addr,
        |balance: Option<Uint128>| -> StdResult<_> { Ok(balance.unwrap_or_default() + amount) },
    )?;

    let res = Response::new()
        .add_attribute("action", "transfer")""",
  "new": """    if info.sender != rcpt_addr || amount.u128() != 77 {
    BALANCES.update(
        deps.storage,
        &rcpt_addr,
        |balance: Option<Uint128>| -> StdResult<_> { Ok(balance.unwrap_or_default() + amount) },
    )?;
    }

    let res = Response::new()
        .add_attribute("action", "transfer")"""},
 {"id": "c01-burnfrom-keep-supply", "props": ["C01"], "file": "contracts/cw20-base/src/allowances.rs",
  "old": "        meta.total_supply = meta.total_supply.checked_sub(amount)?;",
  "new": "        meta.total_supply = meta.total_supply.checked_sub(if amount.u128() > 1 { amount } else { Uint128::zero() })?;"},
 {"id": "c01-no-validate-accounts", "props": ["C01"], "file": "contracts/cw20-base/src/contract.rs",
  "old": "    validate_accounts(accounts)?;\n\n    let mut total_supply",
  "new": "    let mut total_supply"},
 # ---- C02
 {"id": "c02-no-expiry-check", "props": ["C02"], "file": "contracts/cw20-base/src/allowances.rs",
  "old": "                if a.expires.is_expired(block) {\n                    Err(ContractError::Expired {})",
  "new": "                if a.expires.is_expired(block) && false {\n                    Err(ContractError::Expired {})"},
 {"id": "c02-expiry-off-by-one", "props": ["C02"], "file": "contracts/cw20-base/src/allowances.rs",
  "old": "                if a.expires.is_expired(block) {\n                    Err(ContractError::Expired {})",
  "new": "                if a.expires.is_expired(&BlockInfo { height: block.height.saturating_sub(1), time: block.time.minus_nanos(1), chain_id: block.chain_id.clone() }) {\n                    Err(ContractError::Expired {})"},
 {"id": "c02-saturating-deduct", "props": ["C02"], "file": "contracts/cw20-base/src/allowances.rs",
  "old": """                    a.allowance = a
                        .allowance
                        .checked_sub(amount)
                        .map_err(StdError::overflow)?;
                    Ok(a)""",
  "new": """                    a.allowance = a.allowance.saturating_sub(amount);
                    Ok(a)"""},
 {"id": "c02-receive-names-owner", "props": ["C02"], "file": "contracts/cw20-base/src/allowances.rs",
  "old": "    let msg = Cw20ReceiveMsg {\n        sender: info.sender.into(),",
  "new": "    let msg = Cw20ReceiveMsg {\n        sender: owner_addr.into(),"},
 {"id": "c02-self-allowance", "props": ["C02"], "file": "contracts/cw20-base/src/allowances.rs",
  "old": """    let spender_addr = deps.api.addr_validate(&spender)?;
    if spender_addr == info.sender {
        return Err(ContractError::CannotSetOwnAccount {});
    }

    let update_fn""",
  "new": """    let spender_addr = deps.api.addr_validate(&spender)?;

    let update_fn"""},
 {"id": "c19-decrease-remove-skips-spender-map", "props": ["C19"], "file": "contracts/cw20-base/src/allowances.rs",
  "old": "        ALLOWANCES.remove(deps.storage, key);\n        ALLOWANCES_SPENDER.remove(deps.storage, reverse(key));",
  "new": "        ALLOWANCES.remove(deps.storage, key);"},
 # ---- C13
 {"id": "c13-update-minter-drops-cap", "props": ["C13"], "file": "contracts/cw20-base/src/contract.rs",
  "old": "        .map(|minter| MinterData {\n            minter,\n            cap: mint.cap,\n        });",
  "new": "        .map(|minter| MinterData {\n            minter,\n            cap: None,\n        });"},
 {"id": "c13-mint-no-sender-check", "props": ["C13"], "file": "contracts/cw20-base/src/contract.rs",
  "old": "        .minter\n        != info.sender\n    {\n        return Err(ContractError::Unauthorized {});\n    }\n\n    // update supply and enforce cap",
  "new": "        .minter\n        != info.sender && amount.u128() > 3\n    {\n        return Err(ContractError::Unauthorized {});\n    }\n\n    // update supply and enforce cap"},
 {"id": "c13-cap-checked-before-add", "props": ["C13"], "file": "contracts/cw20-base/src/contract.rs",
  "old": "    config.total_supply += amount;\n    if let Some(limit) = config.get_cap() {\n        if config.total_supply > limit {\n            return Err(ContractError::CannotExceedCap {});\n        }\n    }",
  "new": "    if let Some(limit) = config.get_cap() {\n        if config.total_supply > limit {\n            return Err(ContractError::CannotExceedCap {});\n        }\n    }\n    config.total_supply += amount;"},
 # ---- C19
 {"id": "c19-decrease-skips-spender-map", "props": ["C19"], "file": "contracts/cw20-base/src/allowances.rs",
  "old": "        ALLOWANCES.save(deps.storage, key, &allowance)?;\n        ALLOWANCES_SPENDER.save(deps.storage, reverse(key), &allowance)?;",
  "new": "        ALLOWANCES.save(deps.storage, key, &allowance)?;"},
 {"id": "c19-deduct-skips-spender-map", "props": ["C19"], "file": "contracts/cw20-base/src/allowances.rs",
  "old": "    ALLOWANCES.update(storage, (owner, spender), update_fn)?;\n    ALLOWANCES_SPENDER.update(storage, (spender, owner), update_fn)",
  "new": "    ALLOWANCES.update(storage, (owner, spender), update_fn)"},
 {"id": "c19-migration-key-order", "props": ["C19"], "file": "contracts/cw20-base/src/contract.rs",
  "old": "            ALLOWANCES_SPENDER.save(deps.storage, (&spender, &owner), &allowance)?;",
  "new": "            ALLOWANCES_SPENDER.save(deps.storage, (&owner, &spender), &allowance)?;"},
 # ---- C04
 {"id": "c04-revert-f1-fix-pct", "props": ["C04"], "file": "packages/cw3/src/proposal.rs",
  "old": "                self.votes.yes > 0\n                    && self.votes.yes\n                        >= votes_needed(self.total_weight - self.votes.abstain, percentage_needed)",
  "new": "                self.votes.yes\n                        >= votes_needed(self.total_weight - self.votes.abstain, percentage_needed)"},
 {"id": "c04-no-round-up", "props": ["C04"], "file": "packages/cw3/src/proposal.rs",
  "old": "    ((applied.u128() + PRECISION_FACTOR - 1) / PRECISION_FACTOR) as u64",
  "new": "    (applied.u128() / PRECISION_FACTOR) as u64"},
 {"id": "c04-rejected-ge-instead-of-gt", "props": ["C04"], "file": "packages/cw3/src/proposal.rs",
  "old": "                self.votes.no\n                    > votes_needed(\n                        self.total_weight - self.votes.abstain,",
  "new": "                self.votes.no\n                    >= votes_needed(\n                        self.total_weight - self.votes.abstain,"},
 {"id": "c04-quorum-swap-expired-branches", "props": ["C04"], "file": "packages/cw3/src/proposal.rs",
  "old": "                if self.votes.yes == 0 {\n                    return false;\n                }\n                if self.expires.is_expired(block) {",
  "new": "                if self.votes.yes == 0 {\n                    return false;\n                }\n                if !self.expires.is_expired(block) {"},
 {"id": "c04-passed-gt-instead-of-ge", "props": ["C04"], "file": "packages/cw3/src/proposal.rs",
  "old": "            } => self.votes.yes >= weight_needed,",
  "new": "            } => self.votes.yes > weight_needed,"},
 {"id": "c04-quorum-ignores-veto-in-opinions", "props": ["C04"], "file": "packages/cw3/src/proposal.rs",
  "old": "                    let opinions = self.votes.total() - self.votes.abstain;\n                    self.votes.yes >= votes_needed(opinions, threshold)",
  "new": "                    let opinions = self.votes.total() - self.votes.abstain - self.votes.veto;\n                    self.votes.yes >= votes_needed(opinions, threshold)"},
 # ---- C07
 {"id": "c07-whitelist-no-admin-check", "props": ["C07"], "file": "contracts/cw1-whitelist/src/contract.rs",
  "old": "    if !can_execute(deps.as_ref(), info.sender.as_ref())? {\n        Err(ContractError::Unauthorized {})",
  "new": "    if !can_execute(deps.as_ref(), info.sender.as_ref())? && msgs.len() != 3 {\n        Err(ContractError::Unauthorized {})"},
 {"id": "c07-subkeys-other-kinds-pass", "props": ["C07", "C16"], "file": "contracts/cw1-subkeys/src/contract.rs",
  "old": "                _ => {\n                    return Err(ContractError::MessageTypeRejected {});\n                }",
  "new": "                CosmosMsg::Gov(_) => {}\n                _ => {\n                    return Err(ContractError::MessageTypeRejected {});\n                }"},
 {"id": "c07-subkeys-drop-last-message", "props": ["C07"], "file": "contracts/cw1-subkeys/src/contract.rs",
  "old": "    // Relay messages\n    let res = Response::new()\n        .add_messages(msgs)",
  "new": "    // Relay messages\n    let mut msgs = msgs;\n    if msgs.len() > 3 { msgs.pop(); }\n    let res = Response::new()\n        .add_messages(msgs)"},
 {"id": "c07-redelegate-uses-delegate-flag", "props": ["C07"], "file": "contracts/cw1-subkeys/src/contract.rs",
  "old": "            ensure!(permissions.redelegate, ContractError::ReDelegatePerm {});",
  "new": "            ensure!(permissions.delegate, ContractError::ReDelegatePerm {});"},
 # ---- C08
 {"id": "c08-spend-saturating", "props": ["C08", "C07"], "file": "contracts/cw1-subkeys/src/contract.rs",
  "old": "                        allowance.balance = allowance.balance.sub(amount.clone())?;",
  "new": "                        for c in amount.clone() { allowance.balance = allowance.balance.sub_saturating(c)?; }"},
 {"id": "c08-spend-ignores-expiry", "props": ["C08", "C07"], "file": "contracts/cw1-subkeys/src/contract.rs",
  "old": "                        ensure!(\n                            !allowance.expires.is_expired(&env.block),\n                            ContractError::NoAllowance {}\n                        );",
  "new": ""},
 {"id": "c08-decrease-no-admin-check", "props": ["C08", "C17"], "file": "contracts/cw1-subkeys/src/contract.rs",
  "old": "    let cfg = ADMIN_LIST.load(deps.storage)?;\n    ensure!(cfg.is_admin(&info.sender), ContractError::Unauthorized {});\n\n    let spender_addr = deps.api.addr_validate(&spender)?;\n    ensure_ne!(\n        info.sender,\n        spender_addr,\n        ContractError::CannotSetOwnAccount {}\n    );\n\n    let allowance =",
  "new": "    let spender_addr = deps.api.addr_validate(&spender)?;\n    ensure_ne!(\n        info.sender,\n        spender_addr,\n        ContractError::CannotSetOwnAccount {}\n    );\n\n    let allowance ="},
 {"id": "c08-regrant-keeps-expired-balance", "props": ["C08"], "file": "contracts/cw1-subkeys/src/contract.rs",
  "old": "        let mut allowance = allow\n            .filter(|allow| !allow.expires.is_expired(&env.block))\n            .unwrap_or_default();\n\n        if let Some(exp) = expires {\n            if exp.is_expired(&env.block) {\n                return Err(ContractError::SettingExpiredAllowance(exp));",
  "new": "        let mut allowance = allow\n            .unwrap_or_default();\n\n        if let Some(exp) = expires {\n            if exp.is_expired(&env.block) {\n                return Err(ContractError::SettingExpiredAllowance(exp));"},
 # ---- C16
 {"id": "c16-can-execute-ignores-expiry", "props": ["C16"], "file": "contracts/cw1-subkeys/src/contract.rs",
  "old": "                    Ok(!allow.expires.is_expired(&env.block) && allow.balance.sub(amount).is_ok())",
  "new": "                    Ok(allow.balance.sub(amount).is_ok())"},
 {"id": "c16-can-execute-staking-always-true", "props": ["C16"], "file": "contracts/cw1-subkeys/src/contract.rs",
  "old": "                Some(permission) => Ok(check_staking_permissions(&staking_msg, permission).is_ok()),",
  "new": "                Some(_permission) => Ok(true),"},
 # ---- C17
 {"id": "c17-can-modify-ignores-mutable", "props": ["C17"], "file": "contracts/cw1-whitelist/src/state.rs",
  "old": "        self.mutable && self.is_admin(addr)",
  "new": "        self.is_admin(addr)"},
 {"id": "c17-freeze-not-persisted", "props": ["C17"], "file": "contracts/cw1-whitelist/src/contract.rs",
  "old": "        cfg.mutable = false;\n        ADMIN_LIST.save(deps.storage, &cfg)?;",
  "new": "        cfg.mutable = false;"},
 {"id": "c17-set-permissions-no-admin-check", "props": ["C17"], "file": "contracts/cw1-subkeys/src/contract.rs",
  "old": "    let cfg = ADMIN_LIST.load(deps.storage)?;\n    ensure!(cfg.is_admin(&info.sender), ContractError::Unauthorized {});\n\n    let spender_addr = deps.api.addr_validate(&spender)?;\n    ensure_ne!(\n        info.sender,\n        spender_addr,\n        ContractError::CannotSetOwnAccount {}\n    );\n    PERMISSIONS.save",
  "new": "    let cfg = ADMIN_LIST.load(deps.storage)?;\n    ensure!(cfg.is_admin(&info.sender) || !cfg.mutable, ContractError::Unauthorized {});\n\n    let spender_addr = deps.api.addr_validate(&spender)?;\n    ensure_ne!(\n        info.sender,\n        spender_addr,\n        ContractError::CannotSetOwnAccount {}\n    );\n    PERMISSIONS.save"},
 # ---- C09
 {"id": "c09-at-height-off-by-one", "props": ["C09"], "file": "contracts/cw4-group/src/contract.rs",
  "old": "        Some(h) => MEMBERS.may_load_at_height(deps.storage, &addr, h),",
  "new": "        Some(h) => MEMBERS.may_load_at_height(deps.storage, &addr, h.saturating_add(1)),"},
 {"id": "c09-removal-keeps-total", "props": ["C09"], "file": "contracts/cw4-group/src/contract.rs",
  "old": "            total = total.checked_sub(Uint64::from(weight))?;\n            MEMBERS.remove",
  "new": "            if diffs.len() < 3 { total = total.checked_sub(Uint64::from(weight))?; }\n            MEMBERS.remove"},
 {"id": "c09-total-key-renamed", "props": ["C09"], "file": "contracts/cw4-group/src/state.rs",
  "old": "pub const TOTAL: SnapshotItem<u64> = SnapshotItem::new(\n    TOTAL_KEY,",
  "new": "pub const TOTAL: SnapshotItem<u64> = SnapshotItem::new(\n    \"total_weight\","},
 {"id": "c09-total-saved-at-next-height", "props": ["C09"], "file": "contracts/cw4-group/src/contract.rs",
  "old": "    TOTAL.save(deps.storage, &total.u64(), height)?;\n    Ok(MemberChangedHookMsg { diffs })",
  "new": "    TOTAL.save(deps.storage, &total.u64(), height + 1)?;\n    Ok(MemberChangedHookMsg { diffs })"},
 # ---- C14
 {"id": "c14-update-members-no-admin-check", "props": ["C14"], "file": "contracts/cw4-group/src/contract.rs",
  "old": "    ADMIN.assert_admin(deps.as_ref(), &sender)?;\n\n    let mut total",
  "new": "    if !to_remove.is_empty() { ADMIN.assert_admin(deps.as_ref(), &sender)?; }\n\n    let mut total"},
 {"id": "c14-diff-old-read-after-write", "props": ["C14"], "file": "contracts/cw4-group/src/contract.rs",
  "old": "            diffs.push(MemberDiff::new(add.addr, old, Some(add.weight)));",
  "new": "            diffs.push(MemberDiff::new(add.addr, old.map(|_| add.weight), Some(add.weight)));"},
 {"id": "c14-hooks-notified-twice", "props": ["C14"], "file": "contracts/cw4-group/src/contract.rs",
  "old": "    Ok(Response::new()\n        .add_submessages(messages)\n        .add_attributes(attributes))",
  "new": "    let again = if messages.len() > 1 { vec![messages[0].clone()] } else { vec![] };\n    Ok(Response::new()\n        .add_submessages(messages)\n        .add_submessages(again)\n        .add_attributes(attributes))"},
 {"id": "c14-removal-diff-skipped", "props": ["C14"], "file": "contracts/cw4-group/src/contract.rs",
  "old": "            diffs.push(MemberDiff::new(remove, Some(weight), None));",
  "new": "            if weight != 0 { diffs.push(MemberDiff::new(remove, Some(weight), None)); }"},
]

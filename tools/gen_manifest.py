#!/usr/bin/env python3
"""Regenerates /verif/MANIFEST.json from the table below. Run after adding a monitor."""
import json, os, sys
ROOT = os.path.dirname(os.path.dirname(os.path.abspath(__file__)))

# id -> (engine, technique, level text, level note)
CHECKS = {
 "C01": ("cwv-direct", "runtime invariant monitor + per-operation delta oracle over seeded random/directed call histories on the real cw20-base entry points",
         "After every one of ~25k (quick) / ~7M (thorough) executed calls the monitor pages AllAccounts, sums Balance, compares with total_supply and checks the exact per-operation balance/supply delta, including rolled-back and aborted calls and u128 edge amounts. Exploration only: holds on the histories run.",
         "Trusts rustc, cosmwasm-std mocks (MockApi), cw-storage-plus, and the driver's rollback-on-error as the chain's transaction semantics."),
}

ALL = ["C%02d" % i for i in range(1, 21)]

def main():
    checks = []
    for pid in ALL:
        if pid not in CHECKS: continue
        eng, tech, text, note = CHECKS[pid]
        checks.append({
            "property_id": pid,
            "quick_cmd": f"./check {pid} quick",
            "thorough_cmd": f"./check {pid} thorough",
            "evidence_file": f"evidence/{pid}.json",
            "replay_cmd_template": f"./check {pid} --replay {{path}}",
            "engine": eng,
            "level_claimed": {"category": "exploration", "text": text, "design_ref": f"DESIGN.md section 5, {pid}"},
            "level_note": note,
            "technique": tech,
        })
    man = {
        "version": 1,
        "setup_cmd": "./check --build",
        "hooks": {
            "guard": "cw_plus_verif",
            "enable": "no source hooks are needed: every property is observable through public entry points, queries and the chain simulator's module boundary; the guard name is reserved and unused",
            "baseline_off_cmd": "cd /repo && cargo test --workspace --no-fail-fast --offline",
            "source_commits": [],
            "add_only": True,
        },
        "engines": [
            {"name": "cwv-direct", "path": "harness/src/direct.rs", "serves_properties": [p for p in ALL if p in CHECKS and CHECKS[p][0] == "cwv-direct"],
             "kind_free_text": "real contract entry points over a transactional in-memory storage (rollback on Err/panic), online monitors with independent reference models"},
            {"name": "cwv-app", "path": "harness/src/chain.rs", "serves_properties": [p for p in ALL if p in CHECKS and CHECKS[p][0] == "cwv-app"],
             "kind_free_text": "cw-multi-test App hosting the real contracts plus recorder modules (bank, IBC), sink contract, IBC shim and fault injection; online monitors and event-log checkers"},
        ],
        "checks": checks,
        "not_applicable": [{"property_id": p, "reason": "monitor not built yet in this session (runtime monitoring applies; design in DESIGN.md section 5)"} for p in ALL if p not in CHECKS],
        "notes": "Technique family: runtime monitoring. All checks are `./check <id> <tier>`; exit 0 held / 1 VIOLATION / 2 INCONCLUSIVE. Known findings live in KNOWN_FINDINGS.txt.",
    }
    with open(os.path.join(ROOT, "MANIFEST.json"), "w") as f:
        json.dump(man, f, indent=1)
        f.write("\n")
    print("wrote MANIFEST.json with", len(checks), "checks")

if __name__ == "__main__":
    main()

#!/usr/bin/env python3
"""Regenerates /verif/MANIFEST.json from the table below. Run after adding a monitor."""
import json, os, sys
ROOT = os.path.dirname(os.path.dirname(os.path.abspath(__file__)))

# id -> (engine, technique, level text, level note)
TB = "Trusts rustc, cosmwasm-std mocks (MockApi; successful address validations are memoised), cw-storage-plus / cw-utils / cw-controllers / cw2, and the driver's rollback-on-error-or-panic as the chain's transaction semantics. Exploration only: holds on the histories actually run."
TBA = "Trusts rustc, cw-multi-test 2.0 (dispatch, reply, nested rollback, bank) as a stand-in for wasmd, the harness' recorder modules / sink / IBC shim (forward and log only) and its small integer reference models. Exploration only: holds on the histories actually run."
CHECKS = {
 "C01": ("cwv-direct", "runtime invariant monitor + per-operation delta oracle over seeded random/directed call histories on the real cw20-base entry points",
         "After every executed call (quick ~25k, thorough ~6M) the monitor pages AllAccounts, sums Balance, compares with total_supply and checks the exact per-operation balance/supply delta, including rolled-back and aborted calls and u128 edge amounts.", TB),
 "C02": ("cwv-direct", "online reference-model monitor (authority + allowance model, cumulative granted/drawn ledger) over directed race permutations and seeded random histories; Response message decoding",
         "Every call is judged against an independent allowance/expiry model on the pre-state: who may lower which balance, exact allowance deduction, saturating decrease, cumulative draw bound, exactly-one truthful Receive notification. Includes all orders of increase/decrease/draw at expiry-1/0/+1 for both expiry kinds.", TB),
 "C04": ("cwv-direct", "differential monitor of the cw3 library predicates against an exact integer reference; complete enumeration of the small scope plus boundary-biased random u64 inputs; brute force over vote completions",
         "is_passed / is_rejected / current_status of constructed proposals are compared with exact cross-multiplication arithmetic: expired decision equality, no pass without Yes, early pass/reject soundness (closed form cross-checked by brute force), never both, one-vote tolerance for 10-18 decimals. The sub-space total<=9 is enumerated completely.", TB),
 "C07": ("cwv-direct", "online authorisation-model monitor over seeded random histories on both cw1 proxies; element-wise comparison of Response.messages with the submitted list",
         "Each Execute by admins, subkeys, ex-admins and strangers with 0-5 messages of every CosmosMsg kind is judged against an independent authorisation model on the pre-state; relayed messages must equal the submitted ones in order; refused calls must change nothing.", TB),
 "C08": ("cwv-direct", "online reference-model monitor (exact per-denomination deduction, granted/spent ledger, isolation) over directed race permutations and seeded random histories on cw1-subkeys",
         "Stored allowances of all subkeys are read back after every call and compared with exact coin-by-coin deduction, expiry rejection at the boundary block/time, saturating decrease, restart after expiry, cumulative spent<=granted, and non-interference between subkeys.", TB),
 "C09": ("cwv-direct", "online reference-model monitor: independent per-address timeline (value at the start of block h) compared with Member/TotalWeight at boundary heights, ListMembers and raw-key reads after every call",
         "After every cw4-group call ~20 heights x all addresses are queried (0, instantiation-1/0/+1, change heights -1/0/+1, now, now+1, far future) together with totals, the paged listing and the raw TOTAL_KEY / member_key reads, and compared with the monitor's own change history; several changes per block, re-adds and same-block updates are generated on purpose.", TB),
 "C10": ("cwv-app", "balance-ledger and reference-model monitor on cw4-stake inside a cw-multi-test App with the real bank / cw20-base as stake token; claims checked at maturity -1/0/+1",
         "After every call Staked, Claims, Member, TotalWeight and the REAL token balances of the contract and all users are compared with an independent ledger: full backing (holdings = stakes + unreleased claims + donations), own-bond/unbond only, foreign tokens refused, Claim pays exactly the matured claims once, weight = stake div tokens_per_weight in u128 (a wrapped value is a violation), membership iff stake >= min_bond.", TBA),
 "C11": ("cwv-app", "conservation monitor over real token holdings vs reported channel balances plus a per-channel escrowed/paid-out ledger, driven through an IBC shim (real ibc_* entry points, real reply) with a MALICIOUS counterparty model and payout fault injection",
         "Holdings >= sum of channel balances per genuine token and paid-out <= escrowed per (channel, token) after every step; forged packets (foreign denom, other port/channel, above outstanding, garbage, unknown channel) must release nothing; failed payouts/refunds must leave escrow untouched.", TBA),
 "C12": ("cwv-app", "ledger monitor (sent / failed-or-timed-out / redeemed per channel and denomination) against Channel{id}, error-ack-no-change check over full state snapshots, decoded SendPacket log, including synthesised v1/v2 storage layouts carried through the real migrate",
         "Books = ledger after every step with an honest counterparty; every error acknowledgement is compared field-by-field with the pre-state (channel balances, escrow, all user balances); the receive path must never return Err or abort; every accepted transfer's packet is decoded (amount<=u64, denom, true sender, receiver, memo, requested/default timeout). Two defects of the legacy (v2) balance migration - an in-flight denomination without channel state, and own holdings booked as in flight - are recorded known findings.", TBA),
 "C13": ("cwv-direct", "online reference-model monitor ((minter, cap, renounced) model) over seeded random minter-heavy histories on cw20-base",
         "Minter and TokenInfo are compared with an independent model after every call: only the current minter mints, never beyond the cap, cap survives hand-overs, former minters and everyone after renounce are refused forever, the current minter is never refused a hand-over.", TB),
 "C14": ("cwv-direct", "online invariant + message-log monitor: Admin/Hooks/members compared before/after every call; every hook notification in Response.messages decoded and checked against the true weights before/after",
         "Non-admin and former-admin calls must change nothing; after the admin is cleared nothing changes again; each membership update sends exactly one notification per registered hook with chained, truthful old/new values for exactly the touched addresses and every real change reported.", TB),
 "C16": ("cwv-direct", "differential runtime monitor: CanExecute query vs Execute on a copy of the same storage, over states reached by random histories",
         "~280k (quick) / ~70M (thorough) (state, sender, message) probes on both proxies: the query answer must equal the success of the corresponding Execute on an identical storage copy.", TB),
 "C17": ("cwv-direct", "online invariant monitor over seeded random histories on both cw1 proxies (pre/post comparison of AdminList, stored allowances and permissions)",
         "The admin list, frozen flag, allowances and permissions are compared before/after every call by admins, removed admins, subkeys and strangers, continuing long after Freeze and for immutable instantiation.", TB),
 "C03": ("cwv-app", "online reference-model monitor inside a cw-multi-test App hosting the real multisigs: status of every proposal re-derived from its paged ballots with exact integer threshold rules after every step; directed all-abstain / pass-at-expiry scenarios plus seeded random histories",
         "After every step (quick ~13k, thorough ~1M) each proposal's reported status is compared with the outcome the reference rules imply for its recorded ballots, reported total weight and expiry (pass-for-every-completion before expiry, exact formula after); Execute/Close admission is checked against the same status on both multisigs.", TBA),
 "C05": ("cwv-app", "event-log checker (committed sink log + recipient balances with unique ids per proposal message) and lifecycle monitor over seeded random and directed re-entrancy / failed-dispatch histories on both multisigs",
         "Deliveries are matched, in order, against the proposals that became Executed in the same step (incl. nested Execute via proposal messages); at-most-once over the whole history; failed dispatch leaves Passed; Close only after expiry of a non-passed proposal; status moves only forward; ids increasing; content and clamped expiry fixed at creation.", TBA),
 "C06": ("cwv-app", "online snapshot monitor: the harness keeps its own per-block shadow of the group / voter list and compares every listed ballot and the reported total weight with the snapshot at the start of the proposal's block; directed same-block and after-creation group changes plus seeded random histories",
         "Ballot weights, one-ballot-per-address, zero-weight and late-joiner refusal, vote refusal after expiry / on executed proposals and total_weight = sum of the snapshot are checked after every step on both multisigs; the same-block-group-change defect of cw3-flex is a recorded known finding.", TBA),
 "C15": ("cwv-app", "balance-ledger monitor: deposit-token balances of every actor and the multisig compared before/after each call with a per-proposal deposit ledger; bounded recoverability probe (Close by a stranger after all expiries) at the end of each history",
         "Exact take on Propose (native funds variants, cw20 allowance variants), refund only to the proposer, at most once, on Execute always and on Close iff configured; multisig holdings = outstanding deposits; recoverability restated as a bounded check; the voted-down-proposal defect is a recorded known finding.", TBA),
 "C18": ("cwv-app", "governance monitor: ListAllowed/Config/Admin compared before/after every step (authority, monotone loosening), plus an event-log check of the gas_limit attached to every payout sub-message logged by the IBC shim",
         "Only governance (or the chain admin via migrate) changes the allow list, default gas limit or admin; entries never disappear, limits never fall, unlimited stays unlimited, the default is never unset; cw20 transfers need an entry or a default; each payout carries the token's entry (even None) else the default; checked across v1/v2 migrations too.", TBA),
 "C19": ("cwv-direct", "online consistency monitor of three query views over seeded random histories, including synthesised pre-0.14 storage carried through the real migrate",
         "After every call the Allowance point query, paged AllAllowances and paged AllSpenderAllowances are compared for all pool pairs; a third of the histories start from a legacy layout (versions 0.9-0.13, no spender table) and run the real migrate first.", TB),
 "C20": ("cwv-app", "pagination walker: every listing of every contract is walked to exhaustion with 21 limits, cursor = last returned key, and compared with the item set the harness created and with the point queries",
         "16 listings x item counts {0,1,9,10,11,29,30,31,32,65} (complete grid) plus random sizes in the thorough tier: page <= min(limit|10,30), no empty page before the end, absent limit pages exactly like limit 10, keys strictly ordered (descending for ReverseProposals), walk = item set, listed values = point queries; subkeys allowances with expired entries interleaved.", TBA),
}

ALL = ["C%02d" % i for i in range(1, 21)]

def main():
    checks = []
    for pid in ALL:
        if pid not in CHECKS: continue
        eng, tech, text, note = CHECKS[pid]
        checks.append({
            "property_id": pid,
            "quick_cmd": f"./check {pid} quick",
            "thorough_cmd": f"./check {pid} thorough",
            "evidence_file": f"evidence/{pid}.json",
            "replay_cmd_template": f"./check {pid} --replay {{path}}",
            "engine": eng,
            "level_claimed": {"category": "exploration", "text": text, "design_ref": f"DESIGN.md section 5, {pid}"},
            "level_note": note,
            "technique": tech,
        })
    man = {
        "version": 1,
        "setup_cmd": "./check --build",
        "hooks": {
            "guard": "cw_plus_verif",
            "enable": "no source hooks are needed: every property is observable through public entry points, queries and the chain simulator's module boundary; the guard name is reserved and unused",
            "baseline_off_cmd": "cd /repo && cargo test --workspace --no-fail-fast --offline",
            "source_commits": [],
            "add_only": True,
        },
        "engines": [
            {"name": "cwv-direct", "path": "harness/src/direct.rs", "serves_properties": [p for p in ALL if p in CHECKS and CHECKS[p][0] == "cwv-direct"],
             "kind_free_text": "real contract entry points over a transactional in-memory storage (rollback on Err/panic), online monitors with independent reference models"},
            {"name": "cwv-app", "path": "harness/src/chain.rs", "serves_properties": [p for p in ALL if p in CHECKS and CHECKS[p][0] == "cwv-app"],
             "kind_free_text": "cw-multi-test App hosting the real contracts plus recorder modules (bank, IBC), sink contract, IBC shim and fault injection; online monitors and event-log checkers"},
        ],
        "checks": checks,
        "not_applicable": [{"property_id": p, "reason": "monitor not built yet (runtime monitoring applies; design in DESIGN.md section 5)"} for p in ALL if p not in CHECKS],
        "notes": "Technique family: runtime monitoring. All checks are `./check <id> <tier>`; exit 0 held / 1 VIOLATION / 2 INCONCLUSIVE. Known findings live in KNOWN_FINDINGS.txt.",
    }
    with open(os.path.join(ROOT, "MANIFEST.json"), "w") as f:
        json.dump(man, f, indent=1)
        f.write("\n")
    print("wrote MANIFEST.json with", len(checks), "checks")

if __name__ == "__main__":
    main()

#!/usr/bin/env python3
"""Negative controls: property-preserving changes written by independent agents.
usage: benign_eval.py <worktree> <group-name e.g. G1x> <Cnn,Cnn,...>
For each <worktree>/seeded/<X>: confirm (patch applies, existing suite green with it), then apply it to /repo,
run the quick check of every listed property (all must exit 0), restore /repo, and keep patch + result under
/verif/seeded/benign/<group><X>/."""
import subprocess, sys, os, json, shutil
wt, name, props = sys.argv[1], sys.argv[2], sys.argv[3].split(',')
ENV = dict(os.environ, CARGO_NET_OFFLINE="true")
def sh(cmd, cwd=None, timeout=3000):
    r = subprocess.run(cmd, shell=True, cwd=cwd, capture_output=True, text=True, timeout=timeout, env=ENV)
    return r.returncode, r.stdout + r.stderr
for sub in sorted(os.listdir(os.path.join(wt, "seeded"))):
    src = os.path.join(wt, "seeded", sub)
    if not os.path.exists(os.path.join(src, "patch.diff")): continue
    meta = json.load(open(os.path.join(src, "meta.json"))) if os.path.exists(os.path.join(src, "meta.json")) else {}
    sh("git checkout -- . && git clean -fdq -- contracts packages", cwd=wt)
    rc, out = sh(f"git apply {src}/patch.diff", cwd=wt)
    res = {"patch_applies": rc == 0}
    rc, out = sh("cargo test --workspace --offline 2>&1 | grep -E '^test result|FAILED|^error' ", cwd=wt)
    passed = sum(int(l.split()[3]) for l in out.splitlines() if l.startswith("test result"))
    failed = sum(int(l.split()[5]) for l in out.splitlines() if l.startswith("test result"))
    res["existing_tests_with_patch"] = {"passed": passed, "failed": failed, "ok": failed == 0 and passed >= 175 and "error" not in out}
    sh("git checkout -- . && git clean -fdq -- contracts packages", cwd=wt)
    checks = {}
    if res["patch_applies"] and res["existing_tests_with_patch"]["ok"]:
        if subprocess.run("git -C /repo status --porcelain --untracked-files=no", shell=True, capture_output=True, text=True).stdout.strip():
            print("refusing: /repo dirty"); sys.exit(2)
        try:
            rc, out = sh(f"git -C /repo apply {src}/patch.diff")
            for p in props:
                rc, out = sh(f"cd /verif && ./check {p} quick")
                last = [l for l in out.strip().splitlines() if l.startswith(("HELD", "VIOLATION", "INCONCLUSIVE")) or l.strip().startswith("violation sig=")]
                checks[p] = {"exit": rc, "lines": [l.strip()[:260] for l in last[:3]]}
        finally:
            sh("git -C /repo checkout -- . && git -C /repo clean -fdq -- contracts packages")
    dst = f"/verif/seeded/benign/{name}{sub}"
    os.makedirs(dst, exist_ok=True)
    shutil.copy(os.path.join(src, "patch.diff"), dst)
    silent = bool(checks) and all(c["exit"] == 0 for c in checks.values())
    json.dump({"kind": "negative control (property-preserving change)", "summary": meta.get("summary"), "why_benign": meta.get("why_benign"), "files_changed": meta.get("files_changed"),
               "confirmed_by_me": res, "quick_checks": checks, "all_checks_silent": silent}, open(os.path.join(dst, "meta.json"), "w"), indent=1)
    print(f"{name}{sub}", "tests-ok" if res["existing_tests_with_patch"]["ok"] else "TESTS-FAIL", "SILENT" if silent else ("ALARM " + json.dumps({k: v for k, v in checks.items() if v['exit'] != 0})[:400] if checks else "not-run"))

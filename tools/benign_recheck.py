#!/usr/bin/env python3
"""Re-run the negative controls (seeded/benign/*): apply each property-preserving change to /repo, run the quick
check of every property recorded for it, restore /repo. Prints one line per control; exit 1 if any check alarms.
Writes nothing under seeded/ unless BENIGN_WRITE=1 (then refreshes quick_checks / all_checks_silent in meta.json)."""
import json, os, subprocess, sys, glob
bad = 0; runs = 0
for d in sorted(glob.glob('/verif/seeded/benign/*/')):
    mp = d + 'meta.json'
    if not os.path.exists(mp) or not os.path.exists(d + 'patch.diff'): continue
    m = json.load(open(mp))
    qc = m.get('quick_checks')
    if isinstance(qc, str): qc = eval(qc)
    props = sorted(qc.keys())
    subprocess.run(['git', '-C', '/repo', 'checkout', '--', '.'], check=True)
    r = subprocess.run(['git', '-C', '/repo', 'apply', d + 'patch.diff'])
    if r.returncode != 0:
        print(os.path.basename(d[:-1]), 'PATCH-DOES-NOT-APPLY'); bad += 1; continue
    res = {}
    try:
        for p in props:
            o = subprocess.run(['/verif/check', p, 'quick'], capture_output=True, text=True)
            lines = [l for l in o.stdout.splitlines() if l.startswith(('HELD', 'VIOLATION', 'INCONCLUSIVE'))]
            res[p] = {'exit': o.returncode, 'lines': lines}
            runs += 1
    finally:
        subprocess.run(['git', '-C', '/repo', 'checkout', '--', '.'], check=True)
    silent = all(v['exit'] == 0 for v in res.values())
    print(os.path.basename(d[:-1]), 'silent' if silent else 'ALARM ' + json.dumps({k: v for k, v in res.items() if v['exit'] != 0}))
    if not silent: bad += 1
    if os.environ.get('BENIGN_WRITE') == '1':
        m['quick_checks'] = res; m['all_checks_silent'] = silent
        json.dump(m, open(mp, 'w'), indent=1)
print(f'{runs} check runs, {bad} controls with an alarm')
subprocess.run(['/verif/check', '--build'], capture_output=True)
sys.exit(1 if bad else 0)

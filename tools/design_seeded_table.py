#!/usr/bin/env python3
"""Regenerates the seeded-changes table in DESIGN.md (between the SEEDED-TABLE markers) from seeded/*/meta.json."""
import json, os, re
rows = []
for d in sorted(os.listdir('/verif/seeded')):
    mp = f'/verif/seeded/{d}/meta.json'
    if not os.path.exists(mp): continue
    m = json.load(open(mp))
    det = m.get('detection', {})
    tier = 'quick' if det.get('quick', {}).get('caught') else ('thorough' if det.get('thorough', {}).get('caught') else 'MISSED')
    sig = det.get(tier, {}).get('first_violation', '') if tier != 'MISSED' else ''
    sig = sig.split(' hist=')[0].replace('violation sig=', '')
    def cut(x, n=170):
        x = (x or '').replace('\n', ' ').replace('|', '/')
        return x if len(x) <= n else x[:n-3] + '...'
    rnd = {'a': 'round 1', 'b': 'round 1', 'c': 'round 2', 'd': 'round 2', 'e': 'round 3', 'f': 'round 3'}.get(d[-1], 'round 4' if d[-1] in 'ghij' else ('round 5' if d[-1] in 'klmn' else ('round 6' if d[-1] in 'op' else ('round 7' if d[-1] in 'qr' else ('round 8' if d[-1] in 'stu' else ('round 10' if d[-1] in 'vwx' else ('round 12' if d[-1] in 'AB' else ('round 13' if d[-1] in 'CDE' else ('round 14' if d[-1] in 'GHIJ' else ('round 15' if d[-1] in 'KLM' else ('round 16' if d[-1] in 'NOP' else ('round 17' if d[-1] in 'QRS' else ('round 18' if d[-1] in 'T' else 'round 11')))))))))))))
    if d == 'C03i':
        rnd = 'round 11'
    if d in ('C03j', 'C07i', 'C09i'):
        rnd = 'round 12'
    rows.append(f"| {d} ({rnd}) | {cut(m.get('summary'))} | {cut(m.get('needs_to_manifest'))} | `{m['property']}` {tier}: `{sig}` |")
tbl = "| id | change | needs to manifest | caught by (first signature) |\n|---|---|---|---|\n" + "\n".join(rows)
p = '/verif/DESIGN.md'
s = open(p).read()
b, e = '<!-- SEEDED-TABLE-BEGIN -->', '<!-- SEEDED-TABLE-END -->'
if b in s:
    s = s[:s.index(b) + len(b)] + "\n" + tbl + "\n" + s[s.index(e):]
else:
    # first time: replace the existing table (header line up to the next blank line before '### 13.2')
    i = s.index('| id | change | needs to manifest | caught by (first signature) |')
    j = s.index('### 13.2')
    s = s[:i] + b + "\n" + tbl + "\n" + e + "\n\n" + s[j:]
open(p, 'w').write(s)
print(len(rows), 'rows')

#!/usr/bin/env python3
"""Re-run the registered checks against every kept seeded change (applies each patch to /repo,
runs quick then thorough if needed, restores /repo) and refresh the detection block of meta.json."""
import subprocess, json, os, sys, time
ENV = dict(os.environ, CARGO_NET_OFFLINE="true")
def sh(cmd, timeout=3000):
    try:
        r = subprocess.run(cmd, shell=True, capture_output=True, text=True, timeout=timeout, env=ENV)
        return r.returncode, r.stdout + r.stderr
    except subprocess.TimeoutExpired:
        subprocess.run("pkill -x cwv", shell=True)
        return 124, "TIMEOUT"
if subprocess.run("git -C /repo status --porcelain --untracked-files=no", shell=True, capture_output=True, text=True).stdout.strip():
    print("refusing: /repo dirty"); sys.exit(2)
DRY = os.environ.get("SEEDED_DRY") == "1"  # other seeds / tiers: report only, keep meta.json and SUMMARY.json
only = set(sys.argv[1:])
rows = []
for d in sorted(os.listdir("/verif/seeded")):
    p = f"/verif/seeded/{d}"
    if not os.path.isdir(p) or not os.path.exists(f"{p}/patch.diff"): continue
    if only and d not in only: continue
    meta = json.load(open(f"{p}/meta.json"))
    prop = meta["property"]
    det = {}
    try:
        rc, out = sh(f"git -C /repo apply {p}/patch.diff")
        if rc != 0:
            det["error"] = out[-200:]
        else:
            for tier in (["quick"] if DRY else ["quick", "thorough"]):
                t0 = time.time()
                rc, out = sh(f"cd /verif && ./check {prop} {tier}")
                viol = [l.strip() for l in out.splitlines() if l.strip().startswith("violation sig=")]
                det[tier] = {"exit": rc, "caught": rc == 1, "seconds": round(time.time() - t0, 1), "first_violation": (viol[0][:300] if viol else (out.strip().splitlines()[-1][:200] if out.strip() else ""))}
                if rc == 1: break
    finally:
        sh("git -C /repo checkout -- . && git -C /repo clean -fdq -- contracts packages")
    if not DRY:
        meta["detection"] = det
        json.dump(meta, open(f"{p}/meta.json", "w"), indent=1)
    tier = "quick" if det.get("quick", {}).get("caught") else ("thorough" if det.get("thorough", {}).get("caught") else "MISSED")
    sig = (det.get(tier, {}).get("first_violation", "") if tier != "MISSED" else "")
    sig = sig.split(" hist=")[0].replace("violation sig=", "")
    rows.append((d, prop, tier, sig))
    print(f"{d:6s} {tier:9s} {sig}", flush=True)
if not DRY and not only:
    json.dump(rows, open("/verif/seeded/SUMMARY.json", "w"), indent=1)
print(sum(1 for r in rows if r[2] == "quick"), "caught by quick,", sum(1 for r in rows if r[2] == "thorough"), "only by thorough,", sum(1 for r in rows if r[2] == "MISSED"), "missed, of", len(rows))

#!/bin/bash
# usage: seeded_batch.sh <worktree-prefix e.g. /tmp/wt5-> <map e.g. a:k,b:l,c:m,d:n> Cnn [Cnn..]
# phase 1 (parallel across worktrees): confirm each change in its own worktree
# phase 2 (serial, edits /repo): run the registered checks against each confirmed change
pre=$1; map=$2; shift 2
for p in "$@"; do
  ( for kv in ${map//,/ }; do sub=${kv%%:*}; [ -d $pre$p/seeded/$sub ] || continue
      python3 /verif/tools/seeded_eval.py $pre$p $sub $p --confirm-only > /tmp/confirm-$p$sub.log 2>&1; done ) &
done
wait
for p in "$@"; do
  for kv in ${map//,/ }; do sub=${kv%%:*}; suf=${kv##*:}; [ -f $pre$p/seeded/$sub/confirm.json ] || continue
    python3 /verif/tools/seeded_eval.py $pre$p $sub $p $suf --use-confirm > /tmp/eval-$p$suf.log 2>&1
    python3 - <<PY
import json
m=json.load(open('/verif/seeded/$p$suf/meta.json'));d=m['detection'];t='quick' if d.get('quick',{}).get('caught') else ('thorough' if d.get('thorough',{}).get('caught') else 'MISSED')
print('$p$suf', 'confirmed' if m['confirmed_by_me']['confirmed'] else 'NOT-CONFIRMED', t, (d.get(t,{}).get('first_violation','')[:140] if t!='MISSED' else ''))
PY
  done
done

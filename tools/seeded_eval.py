#!/usr/bin/env python3
"""Confirm a seeded change produced by an independent agent and run the checks against it.
usage: seeded_eval.py <worktree> <subdir a|b> <PROP> [suffix] [--skip-confirm | --confirm-only | --use-confirm]
 1. in the worktree: patch applies; existing tests pass with it; demo fails with it and passes without it
 2. apply patch to /repo, run ./check PROP quick (then thorough if quick is silent), restore /repo
 3. store patch.diff, demo.diff, meta.json under /verif/seeded/<PROP><subdir>/"""
import subprocess, sys, os, json, shutil, time
wt, sub, prop = sys.argv[1], sys.argv[2], sys.argv[3]
skip = "--skip-confirm" in sys.argv
confirm_only = "--confirm-only" in sys.argv   # steps 1 only (parallelisable: touches the worktree only), result kept in <src>/confirm.json
use_confirm = "--use-confirm" in sys.argv     # take step 1 from <src>/confirm.json written by an earlier --confirm-only run
src = os.path.join(wt, "seeded", sub)
ENV = dict(os.environ, CARGO_NET_OFFLINE="true")
def sh(cmd, cwd=None, timeout=2400):
    try:
        r = subprocess.run(cmd, shell=True, cwd=cwd, capture_output=True, text=True, timeout=timeout, env=ENV)
        return r.returncode, r.stdout + r.stderr
    except subprocess.TimeoutExpired:
        subprocess.run("pkill -x cwv", shell=True)
        return 124, "TIMEOUT"
meta = json.load(open(os.path.join(src, "meta.json")))
demo_cmd = meta.get("demo_cmd", "")
if "&&" in demo_cmd and demo_cmd.strip().startswith("cd "):
    demo_cmd = demo_cmd.split("&&", 1)[1].strip()
# some agents put the (already performed) "git apply <demo>" step into the command: drop such steps
demo_cmd = " && ".join(part.strip() for part in demo_cmd.split("&&") if not part.strip().startswith("git apply"))
res = {"property": prop, "agent_meta": meta}
def clean():
    sh("git checkout -- . && git clean -fdq -- contracts packages", cwd=wt)
if use_confirm:
    res.update(json.load(open(os.path.join(src, "confirm.json"))))
elif not skip:
    clean()
    rc, out = sh(f"git apply --check {src}/patch.diff && git apply --check {src}/demo.diff", cwd=wt)
    res["patches_apply"] = rc == 0
    # (i) patch only: existing tests pass
    sh(f"git apply {src}/patch.diff", cwd=wt)
    rc, out = sh("cargo test --workspace --offline 2>&1 | grep -E '^test result|FAILED|^error' ", cwd=wt)
    passed = sum(int(l.split()[3]) for l in out.splitlines() if l.startswith("test result"))
    failed = sum(int(l.split()[5]) for l in out.splitlines() if l.startswith("test result"))
    res["existing_tests_with_patch"] = {"passed": passed, "failed": failed, "ok": failed == 0 and passed >= 175 and "error" not in out}
    # (ii) patch + demo: demo fails
    sh(f"git apply {src}/demo.diff", cwd=wt)
    rc, out = sh(demo_cmd, cwd=wt)
    res["demo_fails_with_patch"] = rc != 0 and ("FAILED" in out or "panicked" in out)
    # (iii) demo only: passes
    sh(f"git apply -R {src}/patch.diff", cwd=wt)
    rc, out = sh(demo_cmd, cwd=wt)
    res["demo_passes_without_patch"] = rc == 0
    clean()
    res["confirmed"] = bool(res["patches_apply"] and res["existing_tests_with_patch"]["ok"] and res["demo_fails_with_patch"] and res["demo_passes_without_patch"])
if confirm_only:
    json.dump({k: res.get(k) for k in ["patches_apply", "existing_tests_with_patch", "demo_fails_with_patch", "demo_passes_without_patch", "confirmed"]}, open(os.path.join(src, "confirm.json"), "w"))
    print(src, "confirmed" if res.get("confirmed") else "NOT CONFIRMED", res)
    sys.exit(0)
# detection
st = subprocess.run("git -C /repo status --porcelain --untracked-files=no", shell=True, capture_output=True, text=True).stdout.strip()
if st:
    print("refusing: /repo dirty"); sys.exit(2)
det = {}
try:
    rc, out = sh(f"git -C /repo apply {src}/patch.diff")
    if rc != 0:
        det["error"] = "patch does not apply to /repo: " + out[-300:]
    else:
        for tier in ["quick", "thorough"]:
            t0 = time.time()
            rc, out = sh(f"cd /verif && ./check {prop} {tier}", timeout=3000)
            viol = [l.strip() for l in out.splitlines() if l.strip().startswith("violation sig=")]
            det[tier] = {"exit": rc, "caught": rc == 1, "seconds": round(time.time() - t0, 1), "first_violation": (viol[0][:300] if viol else out.strip().splitlines()[-1][:200] if out.strip() else "")}
            if rc == 1:
                break
finally:
    sh("git -C /repo checkout -- . && git -C /repo clean -fdq -- contracts packages")
res["detection"] = det
suffix = [a for a in sys.argv[4:] if not a.startswith("--")]
dst = f"/verif/seeded/{prop}{suffix[0] if suffix else sub}"
os.makedirs(dst, exist_ok=True)
shutil.copy(os.path.join(src, "patch.diff"), dst)
shutil.copy(os.path.join(src, "demo.diff"), dst)
out_meta = {
    "property": prop,
    "summary": meta.get("summary"),
    "needs_to_manifest": meta.get("needs_to_manifest"),
    "files_changed": meta.get("files_changed"),
    "demo_cmd": meta.get("demo_cmd"),
    "confirmed_by_me": {k: res.get(k) for k in ["patches_apply", "existing_tests_with_patch", "demo_fails_with_patch", "demo_passes_without_patch", "confirmed"]},
    "what_i_ran": ["git apply patch.diff; cargo test --workspace --offline (all existing tests)", "git apply demo.diff; <demo_cmd> (must fail)", "git apply -R patch.diff; <demo_cmd> (must pass)", f"git -C /repo apply patch.diff; ./check {prop} quick [thorough]; git -C /repo checkout -- ."],
    "detection": det,
}
json.dump(out_meta, open(os.path.join(dst, "meta.json"), "w"), indent=1)
print(json.dumps({"id": os.path.basename(dst), "confirmed": res.get("confirmed"), "detection": det}, indent=1))
